#!/bin/bash
# Native validation of the bytes model (DESIGN 2.2): upstream tests + differential test.
set -e
here="$(cd "$(dirname "${BASH_SOURCE[0]}")" && pwd)"
export CARGO_NET_OFFLINE=true
export CARGO_TARGET_DIR="$here/../../target/shim-test"
mkdir -p "$CARGO_TARGET_DIR"
log="$CARGO_TARGET_DIR/validate.log"
cd "$here/../bytes"
skips=()
while read -r name _; do
  case "$name" in ''|\#*) continue;; esac
  skips+=(--skip "$name")
done < "$here/skipped_upstream_tests.txt"
run() { if ! "$@" >"$log" 2>&1; then tail -50 "$log"; echo "bytes model validation FAILED: $*"; exit 1; fi; grep "test result\|all identical" "$log" || true; }
run cargo test --offline --test test_buf --test test_buf_mut
run cargo test --offline --test test_bytes -- "${skips[@]}"
cd "$here"
run cargo run --offline --release -q -- 3000
echo "bytes model validation OK"

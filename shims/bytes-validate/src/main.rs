//! Differential validation of the Vec-backed `bytes` model against the real crate.
//!
//! The same pseudo-random operation sequences (including calls that violate
//! preconditions and must panic) are interpreted against both crates; the
//! observable trace (every returned value, every buffer content, every panic)
//! must be identical.  Covers every `bytes` API rumqttc / rumqttd use.
use std::panic::{catch_unwind, AssertUnwindSafe};

struct Lcg(u64);
impl Lcg {
    fn next(&mut self) -> u64 {
        self.0 = self.0.wrapping_mul(6364136223846793005).wrapping_add(1442695040888963407);
        self.0 >> 33
    }
    fn below(&mut self, n: u64) -> u64 {
        self.next() % n
    }
}

macro_rules! interp {
    ($modname:ident, $krate:ident) => {
        mod $modname {
            use super::*;
            use $krate::{Buf, BufMut, Bytes, BytesMut};

            fn guard<T>(trace: &mut Vec<String>, what: &str, f: impl FnOnce() -> T) -> Option<T> {
                match catch_unwind(AssertUnwindSafe(f)) {
                    Ok(v) => Some(v),
                    Err(_) => {
                        trace.push(format!("{what}: PANIC"));
                        None
                    }
                }
            }

            pub fn run(seed: u64, steps: usize) -> Vec<String> {
                let mut rng = Lcg(seed);
                let mut t: Vec<String> = Vec::new();
                let mut m = BytesMut::new();
                let mut b = Bytes::new();
                let mut stash: Vec<Bytes> = Vec::new();
                for _ in 0..steps {
                    let op = rng.below(30);
                    let k = rng.below(12) as usize;
                    let v = rng.below(256) as u8;
                    match op {
                        0 => { m.put_u8(v); }
                        1 => { m.put_u16(v as u16 * 257 + k as u16); }
                        2 => { m.put_u32(v as u32 * 65537 + k as u32); }
                        3 => { let s: Vec<u8> = (0..k).map(|i| v.wrapping_add(i as u8)).collect(); m.extend_from_slice(&s); }
                        4 => { let s: Vec<u8> = (0..k).map(|i| v.wrapping_mul(i as u8 + 1)).collect(); m.put_slice(&s); }
                        5 => { m.reserve(k * 7); }
                        6 => {
                            // split_to, possibly out of range
                            let mut mm = std::mem::take(&mut m);
                            let r = guard(&mut t, "m.split_to", || { let h = mm.split_to(k); (h, mm) });
                            match r { Some((h, rest)) => { t.push(format!("m.split_to({k}) -> {:?}", &h[..])); stash.push(h.freeze()); m = rest; }
                                      None => { m = BytesMut::new(); } }
                        }
                        7 => {
                            let mut mm = std::mem::take(&mut m);
                            let r = guard(&mut t, "m.advance", || { mm.advance(k); mm });
                            m = r.unwrap_or_default();
                        }
                        8 => { let mm = std::mem::take(&mut m); b = mm.freeze(); t.push(format!("freeze -> {:?}", &b[..])); }
                        9 => {
                            let mut bb = std::mem::take(&mut b);
                            let r = guard(&mut t, "b.split_to", || { let h = bb.split_to(k); (h, bb) });
                            match r { Some((h, rest)) => { t.push(format!("b.split_to({k}) -> {:?}", &h[..])); stash.push(h); b = rest; }
                                      None => { b = Bytes::new(); } }
                        }
                        10 => {
                            let mut bb = std::mem::take(&mut b);
                            let r = guard(&mut t, "b.split_off", || { let h = bb.split_off(k); (h, bb) });
                            match r { Some((tail, rest)) => { t.push(format!("b.split_off({k}) -> {:?}", &tail[..])); stash.push(tail); b = rest; }
                                      None => { b = Bytes::new(); } }
                        }
                        11 => {
                            let mut bb = std::mem::take(&mut b);
                            let r = guard(&mut t, "b.advance", || { bb.advance(k); bb });
                            b = r.unwrap_or_default();
                        }
                        12 => {
                            let mut bb = std::mem::take(&mut b);
                            let r = guard(&mut t, "b.get_u8", || { let x = bb.get_u8(); (x, bb) });
                            if let Some((x, rest)) = r { t.push(format!("get_u8 -> {x}")); b = rest; }
                        }
                        13 => {
                            let mut bb = std::mem::take(&mut b);
                            let r = guard(&mut t, "b.get_u16", || { let x = bb.get_u16(); (x, bb) });
                            if let Some((x, rest)) = r { t.push(format!("get_u16 -> {x}")); b = rest; }
                        }
                        14 => {
                            let mut bb = std::mem::take(&mut b);
                            let r = guard(&mut t, "b.get_u32", || { let x = bb.get_u32(); (x, bb) });
                            if let Some((x, rest)) = r { t.push(format!("get_u32 -> {x}")); b = rest; }
                        }
                        15 => { let c = b.clone(); t.push(format!("clone eq {}", c == b)); stash.push(c); }
                        16 => {
                            let lo = k.min(6); let hi = rng.below(12) as usize;
                            let bb = b.clone();
                            if let Some(s) = guard(&mut t, "b.slice", || bb.slice(lo..hi)) { t.push(format!("slice({lo}..{hi}) -> {:?}", &s[..])); stash.push(s); }
                        }
                        17 => { b.truncate(k); }
                        18 => { m.truncate(k); }
                        19 => { b = Bytes::copy_from_slice(&[v, v ^ 0x55, k as u8][..(k % 4).min(3)]); }
                        20 => { b = Bytes::from(vec![v; k]); }
                        21 => { b = Bytes::from(format!("s{k}{v}")); }
                        22 => { b = Bytes::from_static(b"static/topic"); }
                        23 => { if let Some(s) = stash.pop() { m.put(s); } }
                        24 => { t.push(format!("b.to_vec {:?} rem {} has {}", b.to_vec(), b.remaining(), b.has_remaining())); }
                        25 => { m.clear(); }
                        26 => { m.resize(k, v); }
                        27 => {
                            let mut mm = std::mem::take(&mut m);
                            let r = guard(&mut t, "m.split_off", || { let h = mm.split_off(k.min(mm.len())) /* at > len depends on capacity: outside the model contract */; (h, mm) });
                            match r { Some((tail, rest)) => { t.push(format!("m.split_off -> {:?}", &tail[..])); m = rest; m.unsplit(tail); }
                                      None => { m = BytesMut::new(); } }
                        }
                        28 => { let mm = m.split(); t.push(format!("m.split -> {:?}", &mm[..])); stash.push(mm.freeze()); }
                        _ => {
                            let mut bb = std::mem::take(&mut b);
                            let r = guard(&mut t, "b.copy_to_bytes", || { let h = bb.copy_to_bytes(k); (h, bb) });
                            match r { Some((h, rest)) => { t.push(format!("copy_to_bytes({k}) -> {:?}", &h[..])); b = rest; } None => { b = Bytes::new(); } }
                        }
                    }
                    t.push(format!("op{op} m={:?} len={} b={:?} len={} empty={}", &m[..], m.len(), &b[..], b.len(), b.is_empty()));
                }
                t
            }
        }
    };
}

interp!(real, real_bytes);
interp!(model, model_bytes);

fn main() {
    std::panic::set_hook(Box::new(|_| {}));
    let seeds: u64 = std::env::args().nth(1).and_then(|s| s.parse().ok()).unwrap_or(3000);
    let mut total = 0usize;
    let mut panics = 0usize;
    for seed in 0..seeds {
        let a = real::run(seed, 60);
        let b = model::run(seed, 60);
        if a != b {
            let i = a.iter().zip(b.iter()).position(|(x, y)| x != y).unwrap_or(a.len().min(b.len()));
            eprintln!("MISMATCH seed {seed} at trace index {i}:\n real : {:?}\n model: {:?}", a.get(i), b.get(i));
            std::process::exit(1);
        }
        total += a.len();
        panics += a.iter().filter(|l| l.ends_with("PANIC")).count();
    }
    println!("bytes model differential validation: {seeds} sequences x 60 ops, {total} trace lines, {panics} precondition panics, all identical");
}

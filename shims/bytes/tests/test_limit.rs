#![warn(rust_2018_idioms)]

use bytes::{buf::Limit, BufMut};

#[test]
fn long_limit() {
    let buf = &mut [0u8; 10];
    let limit = buf.limit(100);
    assert_eq!(10, limit.remaining_mut());
    assert_eq!(&[0u8; 10], &limit.get_ref()[..]);
}

#[test]
fn limit_get_mut() {
    let buf = &mut [0u8; 128];
    let mut limit = buf.limit(10);
    assert_eq!(10, limit.remaining_mut());
    assert_eq!(&mut [0u8; 128], &limit.get_mut()[..]);
}

#[test]
fn limit_set_limit() {
    let buf = &mut [0u8; 128];
    let mut limit = buf.limit(10);
    assert_eq!(10, Limit::limit(&limit));
    limit.set_limit(5);
    assert_eq!(5, Limit::limit(&limit));
}

#[test]
fn limit_chunk_mut() {
    let buf = &mut [0u8; 20];
    let mut limit = buf.limit(10);
    assert_eq!(10, limit.chunk_mut().len());

    let buf = &mut [0u8; 10];
    let mut limit = buf.limit(20);
    assert_eq!(10, limit.chunk_mut().len());
}

#[test]
#[should_panic = "advance out of bounds"]
fn limit_advance_mut_panic_1() {
    let buf = &mut [0u8; 10];
    let mut limit = buf.limit(100);
    unsafe {
        limit.advance_mut(50);
    }
}

#[test]
#[should_panic = "cnt <= self.limit"]
fn limit_advance_mut_panic_2() {
    let buf = &mut [0u8; 100];
    let mut limit = buf.limit(10);
    unsafe {
        limit.advance_mut(50);
    }
}

#[test]
fn limit_advance_mut() {
    let buf = &mut [0u8; 100];
    let mut limit = buf.limit(10);
    unsafe {
        limit.advance_mut(5);
    }
    assert_eq!(5, limit.remaining_mut());
    assert_eq!(5, limit.chunk_mut().len());
}

#[test]
fn limit_into_inner() {
    let buf_arr = *b"hello world";
    let buf: &mut [u8] = &mut buf_arr.clone();
    let mut limit = buf.limit(4);
    let mut dst = vec![];

    unsafe {
        limit.advance_mut(2);
    }

    let buf = limit.into_inner();
    dst.put(&buf[..]);
    assert_eq!(*dst, b"llo world"[..]);
}

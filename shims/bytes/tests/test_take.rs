#![warn(rust_2018_idioms)]

use bytes::buf::Buf;
use bytes::Bytes;

#[test]
fn long_take() {
    // Tests that get a take with a size greater than the buffer length will not
    // overrun the buffer. Regression test for #138.
    let buf = b"hello world".take(100);
    assert_eq!(11, buf.remaining());
    assert_eq!(b"hello world", buf.chunk());
}

#[test]
fn take_copy_to_bytes() {
    let mut abcd = Bytes::copy_from_slice(b"abcd");
    let abcd_ptr = abcd.as_ptr();
    let mut take = (&mut abcd).take(2);
    let a = take.copy_to_bytes(1);
    assert_eq!(Bytes::copy_from_slice(b"a"), a);
    // assert `to_bytes` did not allocate
    assert_eq!(abcd_ptr, a.as_ptr());
    assert_eq!(Bytes::copy_from_slice(b"bcd"), abcd);
}

#[test]
#[should_panic]
fn take_copy_to_bytes_panics() {
    let abcd = Bytes::copy_from_slice(b"abcd");
    abcd.take(2).copy_to_bytes(3);
}

#[cfg(feature = "std")]
#[test]
fn take_chunks_vectored() {
    fn chain() -> impl Buf {
        Bytes::from([1, 2, 3].to_vec()).chain(Bytes::from([4, 5, 6].to_vec()))
    }

    {
        let mut dst = [std::io::IoSlice::new(&[]); 2];
        let take = chain().take(0);
        assert_eq!(take.chunks_vectored(&mut dst), 0);
    }

    {
        let mut dst = [std::io::IoSlice::new(&[]); 2];
        let take = chain().take(1);
        assert_eq!(take.chunks_vectored(&mut dst), 1);
        assert_eq!(&*dst[0], &[1]);
    }

    {
        let mut dst = [std::io::IoSlice::new(&[]); 2];
        let take = chain().take(3);
        assert_eq!(take.chunks_vectored(&mut dst), 1);
        assert_eq!(&*dst[0], &[1, 2, 3]);
    }

    {
        let mut dst = [std::io::IoSlice::new(&[]); 2];
        let take = chain().take(4);
        assert_eq!(take.chunks_vectored(&mut dst), 2);
        assert_eq!(&*dst[0], &[1, 2, 3]);
        assert_eq!(&*dst[1], &[4]);
    }

    {
        let mut dst = [std::io::IoSlice::new(&[]); 2];
        let take = chain().take(6);
        assert_eq!(take.chunks_vectored(&mut dst), 2);
        assert_eq!(&*dst[0], &[1, 2, 3]);
        assert_eq!(&*dst[1], &[4, 5, 6]);
    }

    {
        let mut dst = [std::io::IoSlice::new(&[]); 2];
        let take = chain().take(7);
        assert_eq!(take.chunks_vectored(&mut dst), 2);
        assert_eq!(&*dst[0], &[1, 2, 3]);
        assert_eq!(&*dst[1], &[4, 5, 6]);
    }
}

#![warn(rust_2018_idioms)]

use bytes::{Buf, BufMut, Bytes, BytesMut};
use std::sync::atomic::{AtomicUsize, Ordering};
use std::sync::Arc;

use std::panic::{self, AssertUnwindSafe};

const LONG: &[u8] = b"mary had a little lamb, little lamb, little lamb";
const SHORT: &[u8] = b"hello world";

fn is_sync<T: Sync>() {}
fn is_send<T: Send>() {}

#[test]
fn test_bounds() {
    is_sync::<Bytes>();
    is_sync::<BytesMut>();
    is_send::<Bytes>();
    is_send::<BytesMut>();
}

#[test]
fn test_layout() {
    use std::mem;

    assert_eq!(
        mem::size_of::<Bytes>(),
        mem::size_of::<usize>() * 4,
        "Bytes size should be 4 words",
    );
    assert_eq!(
        mem::size_of::<BytesMut>(),
        mem::size_of::<usize>() * 4,
        "BytesMut should be 4 words",
    );

    assert_eq!(
        mem::size_of::<Bytes>(),
        mem::size_of::<Option<Bytes>>(),
        "Bytes should be same size as Option<Bytes>",
    );

    assert_eq!(
        mem::size_of::<BytesMut>(),
        mem::size_of::<Option<BytesMut>>(),
        "BytesMut should be same size as Option<BytesMut>",
    );
}

#[test]
fn from_slice() {
    let a = Bytes::from(&b"abcdefgh"[..]);
    assert_eq!(a, b"abcdefgh"[..]);
    assert_eq!(a, &b"abcdefgh"[..]);
    assert_eq!(a, Vec::from(&b"abcdefgh"[..]));
    assert_eq!(b"abcdefgh"[..], a);
    assert_eq!(&b"abcdefgh"[..], a);
    assert_eq!(Vec::from(&b"abcdefgh"[..]), a);

    let a = BytesMut::from(&b"abcdefgh"[..]);
    assert_eq!(a, b"abcdefgh"[..]);
    assert_eq!(a, &b"abcdefgh"[..]);
    assert_eq!(a, Vec::from(&b"abcdefgh"[..]));
    assert_eq!(b"abcdefgh"[..], a);
    assert_eq!(&b"abcdefgh"[..], a);
    assert_eq!(Vec::from(&b"abcdefgh"[..]), a);
}

#[test]
fn fmt() {
    let a = format!("{:?}", Bytes::from(&b"abcdefg"[..]));
    let b = "b\"abcdefg\"";

    assert_eq!(a, b);

    let a = format!("{:?}", BytesMut::from(&b"abcdefg"[..]));
    assert_eq!(a, b);
}

#[test]
fn fmt_write() {
    use std::fmt::Write;
    let s = String::from_iter((0..10).map(|_| "abcdefg"));

    let mut a = BytesMut::with_capacity(64);
    write!(a, "{}", &s[..64]).unwrap();
    assert_eq!(a, s[..64].as_bytes());

    let mut b = BytesMut::with_capacity(64);
    write!(b, "{}", &s[..32]).unwrap();
    write!(b, "{}", &s[32..64]).unwrap();
    assert_eq!(b, s[..64].as_bytes());

    let mut c = BytesMut::with_capacity(64);
    write!(c, "{}", s).unwrap();
    assert_eq!(c, s[..].as_bytes());
}

#[test]
fn len() {
    let a = Bytes::from(&b"abcdefg"[..]);
    assert_eq!(a.len(), 7);

    let a = BytesMut::from(&b"abcdefg"[..]);
    assert_eq!(a.len(), 7);

    let a = Bytes::from(&b""[..]);
    assert!(a.is_empty());

    let a = BytesMut::from(&b""[..]);
    assert!(a.is_empty());
}

#[test]
fn index() {
    let a = Bytes::from(&b"hello world"[..]);
    assert_eq!(a[0..5], *b"hello");
}

#[test]
fn slice() {
    let a = Bytes::from(&b"hello world"[..]);

    let b = a.slice(3..5);
    assert_eq!(b, b"lo"[..]);

    let b = a.slice(0..0);
    assert_eq!(b, b""[..]);

    let b = a.slice(3..3);
    assert_eq!(b, b""[..]);

    let b = a.slice(a.len()..a.len());
    assert_eq!(b, b""[..]);

    let b = a.slice(..5);
    assert_eq!(b, b"hello"[..]);

    let b = a.slice(3..);
    assert_eq!(b, b"lo world"[..]);
}

#[test]
#[should_panic]
fn slice_oob_1() {
    let a = Bytes::from(&b"hello world"[..]);
    a.slice(5..44);
}

#[test]
#[should_panic]
fn slice_oob_2() {
    let a = Bytes::from(&b"hello world"[..]);
    a.slice(44..49);
}

#[test]
#[should_panic]
fn slice_start_greater_than_end() {
    let a = Bytes::from(&b"hello world"[..]);
    a.slice(5..3);
}

#[test]
fn split_off() {
    let mut hello = Bytes::from(&b"helloworld"[..]);
    let world = hello.split_off(5);

    assert_eq!(hello, &b"hello"[..]);
    assert_eq!(world, &b"world"[..]);

    let mut hello = BytesMut::from(&b"helloworld"[..]);
    let world = hello.split_off(5);

    assert_eq!(hello, &b"hello"[..]);
    assert_eq!(world, &b"world"[..]);
}

#[test]
#[should_panic]
fn split_off_oob() {
    let mut hello = Bytes::from(&b"helloworld"[..]);
    let _ = hello.split_off(44);
}

#[test]
#[should_panic = "split_off out of bounds"]
fn bytes_mut_split_off_oob() {
    let mut hello = BytesMut::from(&b"helloworld"[..]);
    let _ = hello.split_off(44);
}

#[test]
fn split_off_uninitialized() {
    let mut bytes = BytesMut::with_capacity(1024);
    let other = bytes.split_off(128);

    assert_eq!(bytes.len(), 0);
    assert_eq!(bytes.capacity(), 128);

    assert_eq!(other.len(), 0);
    assert_eq!(other.capacity(), 896);
}

#[test]
fn split_off_to_loop() {
    let s = b"abcdefghijklmnopqrstuvwxyzABCDEFGHIJKLMNOPQRSTUVWXYZ";

    for i in 0..(s.len() + 1) {
        {
            let mut bytes = Bytes::from(&s[..]);
            let off = bytes.split_off(i);
            assert_eq!(i, bytes.len());
            let mut sum = Vec::new();
            sum.extend(bytes.iter());
            sum.extend(off.iter());
            assert_eq!(&s[..], &sum[..]);
        }
        {
            let mut bytes = BytesMut::from(&s[..]);
            let off = bytes.split_off(i);
            assert_eq!(i, bytes.len());
            let mut sum = Vec::new();
            sum.extend(&bytes);
            sum.extend(&off);
            assert_eq!(&s[..], &sum[..]);
        }
        {
            let mut bytes = Bytes::from(&s[..]);
            let off = bytes.split_to(i);
            assert_eq!(i, off.len());
            let mut sum = Vec::new();
            sum.extend(off.iter());
            sum.extend(bytes.iter());
            assert_eq!(&s[..], &sum[..]);
        }
        {
            let mut bytes = BytesMut::from(&s[..]);
            let off = bytes.split_to(i);
            assert_eq!(i, off.len());
            let mut sum = Vec::new();
            sum.extend(&off);
            sum.extend(&bytes);
            assert_eq!(&s[..], &sum[..]);
        }
    }
}

#[test]
fn split_to_1() {
    // Static
    let mut a = Bytes::from_static(SHORT);
    let b = a.split_to(4);

    assert_eq!(SHORT[4..], a);
    assert_eq!(SHORT[..4], b);

    // Allocated
    let mut a = Bytes::copy_from_slice(LONG);
    let b = a.split_to(4);

    assert_eq!(LONG[4..], a);
    assert_eq!(LONG[..4], b);

    let mut a = Bytes::copy_from_slice(LONG);
    let b = a.split_to(30);

    assert_eq!(LONG[30..], a);
    assert_eq!(LONG[..30], b);
}

#[test]
fn split_to_2() {
    let mut a = Bytes::from(LONG);
    assert_eq!(LONG, a);

    let b = a.split_to(1);

    assert_eq!(LONG[1..], a);
    drop(b);
}

#[test]
#[should_panic]
fn split_to_oob() {
    let mut hello = Bytes::from(&b"helloworld"[..]);
    let _ = hello.split_to(33);
}

#[test]
#[should_panic]
fn split_to_oob_mut() {
    let mut hello = BytesMut::from(&b"helloworld"[..]);
    let _ = hello.split_to(33);
}

#[test]
#[should_panic]
fn split_to_uninitialized() {
    let mut bytes = BytesMut::with_capacity(1024);
    let _other = bytes.split_to(128);
}

#[test]
#[cfg_attr(not(panic = "unwind"), ignore)]
fn split_off_to_at_gt_len() {
    fn make_bytes() -> Bytes {
        let mut bytes = BytesMut::with_capacity(100);
        bytes.put_slice(&[10, 20, 30, 40]);
        bytes.freeze()
    }

    use std::panic;

    let _ = make_bytes().split_to(4);
    let _ = make_bytes().split_off(4);

    assert!(panic::catch_unwind(move || {
        let _ = make_bytes().split_to(5);
    })
    .is_err());

    assert!(panic::catch_unwind(move || {
        let _ = make_bytes().split_off(5);
    })
    .is_err());
}

#[test]
fn truncate() {
    let s = &b"helloworld"[..];
    let mut hello = Bytes::from(s);
    hello.truncate(15);
    assert_eq!(hello, s);
    hello.truncate(10);
    assert_eq!(hello, s);
    hello.truncate(5);
    assert_eq!(hello, "hello");
}

#[test]
fn freeze_clone_shared() {
    let s = &b"abcdefgh"[..];
    let b = BytesMut::from(s).split().freeze();
    assert_eq!(b, s);
    let c = b.clone();
    assert_eq!(c, s);
}

#[test]
fn freeze_clone_unique() {
    let s = &b"abcdefgh"[..];
    let b = BytesMut::from(s).freeze();
    assert_eq!(b, s);
    let c = b.clone();
    assert_eq!(c, s);
}

#[test]
fn freeze_after_advance() {
    let s = &b"abcdefgh"[..];
    let mut b = BytesMut::from(s);
    b.advance(1);
    assert_eq!(b, s[1..]);
    let b = b.freeze();
    // Verify fix for #352. Previously, freeze would ignore the start offset
    // for BytesMuts in Vec mode.
    assert_eq!(b, s[1..]);
}

#[test]
fn freeze_after_advance_arc() {
    let s = &b"abcdefgh"[..];
    let mut b = BytesMut::from(s);
    // Make b Arc
    let _ = b.split_to(0);
    b.advance(1);
    assert_eq!(b, s[1..]);
    let b = b.freeze();
    assert_eq!(b, s[1..]);
}

#[test]
fn freeze_after_split_to() {
    let s = &b"abcdefgh"[..];
    let mut b = BytesMut::from(s);
    let _ = b.split_to(1);
    assert_eq!(b, s[1..]);
    let b = b.freeze();
    assert_eq!(b, s[1..]);
}

#[test]
fn freeze_after_truncate() {
    let s = &b"abcdefgh"[..];
    let mut b = BytesMut::from(s);
    b.truncate(7);
    assert_eq!(b, s[..7]);
    let b = b.freeze();
    assert_eq!(b, s[..7]);
}

#[test]
fn freeze_after_truncate_arc() {
    let s = &b"abcdefgh"[..];
    let mut b = BytesMut::from(s);
    // Make b Arc
    let _ = b.split_to(0);
    b.truncate(7);
    assert_eq!(b, s[..7]);
    let b = b.freeze();
    assert_eq!(b, s[..7]);
}

#[test]
fn freeze_after_split_off() {
    let s = &b"abcdefgh"[..];
    let mut b = BytesMut::from(s);
    let _ = b.split_off(7);
    assert_eq!(b, s[..7]);
    let b = b.freeze();
    assert_eq!(b, s[..7]);
}

#[test]
fn fns_defined_for_bytes_mut() {
    let mut bytes = BytesMut::from(&b"hello world"[..]);

    let _ = bytes.as_ptr();
    let _ = bytes.as_mut_ptr();

    // Iterator
    let v: Vec<u8> = bytes.as_ref().iter().cloned().collect();
    assert_eq!(&v[..], bytes);
}

#[test]
fn reserve_convert() {
    // Vec -> Vec
    let mut bytes = BytesMut::from(LONG);
    bytes.reserve(64);
    assert_eq!(bytes.capacity(), LONG.len() + 64);

    // Arc -> Vec
    let mut bytes = BytesMut::from(LONG);
    let a = bytes.split_to(30);

    bytes.reserve(128);
    assert!(bytes.capacity() >= bytes.len() + 128);

    drop(a);
}

#[test]
fn reserve_growth() {
    let mut bytes = BytesMut::with_capacity(64);
    bytes.put("hello world".as_bytes());
    let _ = bytes.split();

    bytes.reserve(65);
    assert_eq!(bytes.capacity(), 117);
}

#[test]
fn reserve_allocates_at_least_original_capacity() {
    let mut bytes = BytesMut::with_capacity(1024);

    for i in 0..1020 {
        bytes.put_u8(i as u8);
    }

    let _other = bytes.split();

    bytes.reserve(16);
    assert_eq!(bytes.capacity(), 1024);
}

#[test]
#[cfg_attr(miri, ignore)] // Miri is too slow
fn reserve_max_original_capacity_value() {
    const SIZE: usize = 128 * 1024;

    let mut bytes = BytesMut::with_capacity(SIZE);

    for _ in 0..SIZE {
        bytes.put_u8(0u8);
    }

    let _other = bytes.split();

    bytes.reserve(16);
    assert_eq!(bytes.capacity(), 64 * 1024);
}

#[test]
fn reserve_vec_recycling() {
    let mut bytes = BytesMut::with_capacity(16);
    assert_eq!(bytes.capacity(), 16);
    let addr = bytes.as_ptr() as usize;
    bytes.put("0123456789012345".as_bytes());
    assert_eq!(bytes.as_ptr() as usize, addr);
    bytes.advance(10);
    assert_eq!(bytes.capacity(), 6);
    bytes.reserve(8);
    assert_eq!(bytes.capacity(), 16);
    assert_eq!(bytes.as_ptr() as usize, addr);
}

#[test]
fn reserve_in_arc_unique_does_not_overallocate() {
    let mut bytes = BytesMut::with_capacity(1000);
    let _ = bytes.split();

    // now bytes is Arc and refcount == 1

    assert_eq!(1000, bytes.capacity());
    bytes.reserve(2001);
    assert_eq!(2001, bytes.capacity());
}

#[test]
fn reserve_in_arc_unique_doubles() {
    let mut bytes = BytesMut::with_capacity(1000);
    let _ = bytes.split();

    // now bytes is Arc and refcount == 1

    assert_eq!(1000, bytes.capacity());
    bytes.reserve(1001);
    assert_eq!(2000, bytes.capacity());
}

#[test]
fn reserve_in_arc_unique_does_not_overallocate_after_split() {
    let mut bytes = BytesMut::from(LONG);
    let orig_capacity = bytes.capacity();
    drop(bytes.split_off(LONG.len() / 2));

    // now bytes is Arc and refcount == 1

    let new_capacity = bytes.capacity();
    bytes.reserve(orig_capacity - new_capacity);
    assert_eq!(bytes.capacity(), orig_capacity);
}

#[test]
fn reserve_in_arc_unique_does_not_overallocate_after_multiple_splits() {
    let mut bytes = BytesMut::from(LONG);
    let orig_capacity = bytes.capacity();
    for _ in 0..10 {
        drop(bytes.split_off(LONG.len() / 2));

        // now bytes is Arc and refcount == 1

        let new_capacity = bytes.capacity();
        bytes.reserve(orig_capacity - new_capacity);
    }
    assert_eq!(bytes.capacity(), orig_capacity);
}

#[test]
fn reserve_in_arc_nonunique_does_not_overallocate() {
    let mut bytes = BytesMut::with_capacity(1000);
    let _copy = bytes.split();

    // now bytes is Arc and refcount == 2

    assert_eq!(1000, bytes.capacity());
    bytes.reserve(2001);
    assert_eq!(2001, bytes.capacity());
}

/// This function tests `BytesMut::reserve_inner`, where `BytesMut` holds
/// a unique reference to the shared vector and decide to reuse it
/// by reallocating the `Vec`.
#[test]
fn reserve_shared_reuse() {
    let mut bytes = BytesMut::with_capacity(1000);
    bytes.put_slice(b"Hello, World!");
    drop(bytes.split());

    bytes.put_slice(b"!123ex123,sadchELLO,_wORLD!");
    // Use split_off so that v.capacity() - self.cap != off
    drop(bytes.split_off(9));
    assert_eq!(&*bytes, b"!123ex123");

    bytes.reserve(2000);
    assert_eq!(&*bytes, b"!123ex123");
    assert_eq!(bytes.capacity(), 2009);
}

#[test]
fn extend_mut() {
    let mut bytes = BytesMut::with_capacity(0);
    bytes.extend(LONG);
    assert_eq!(*bytes, LONG[..]);
}

#[test]
fn extend_from_slice_mut() {
    for &i in &[3, 34] {
        let mut bytes = BytesMut::new();
        bytes.extend_from_slice(&LONG[..i]);
        bytes.extend_from_slice(&LONG[i..]);
        assert_eq!(LONG[..], *bytes);
    }
}

#[test]
fn extend_mut_from_bytes() {
    let mut bytes = BytesMut::with_capacity(0);
    bytes.extend([Bytes::from(LONG)]);
    assert_eq!(*bytes, LONG[..]);
}

#[test]
fn extend_past_lower_limit_of_size_hint() {
    // See https://github.com/tokio-rs/bytes/pull/674#pullrequestreview-1913035700
    struct Iter<I>(I);

    impl<I: Iterator<Item = u8>> Iterator for Iter<I> {
        type Item = u8;

        fn next(&mut self) -> Option<Self::Item> {
            self.0.next()
        }

        fn size_hint(&self) -> (usize, Option<usize>) {
            (5, None)
        }
    }

    let mut bytes = BytesMut::with_capacity(5);
    bytes.extend(Iter(std::iter::repeat(0).take(10)));
    assert_eq!(bytes.len(), 10);
}

#[test]
fn extend_mut_without_size_hint() {
    let mut bytes = BytesMut::with_capacity(0);
    let mut long_iter = LONG.iter();

    // Use iter::from_fn since it doesn't know a size_hint
    bytes.extend(std::iter::from_fn(|| long_iter.next()));
    assert_eq!(*bytes, LONG[..]);
}

#[test]
fn from_static() {
    let mut a = Bytes::from_static(b"ab");
    let b = a.split_off(1);

    assert_eq!(a, b"a"[..]);
    assert_eq!(b, b"b"[..]);
}

#[test]
fn advance_static() {
    let mut a = Bytes::from_static(b"hello world");
    a.advance(6);
    assert_eq!(a, &b"world"[..]);
}

#[test]
fn advance_vec() {
    let mut a = Bytes::from(b"hello world boooo yah world zomg wat wat".to_vec());
    a.advance(16);
    assert_eq!(a, b"o yah world zomg wat wat"[..]);

    a.advance(4);
    assert_eq!(a, b"h world zomg wat wat"[..]);

    a.advance(6);
    assert_eq!(a, b"d zomg wat wat"[..]);
}

#[test]
fn advance_bytes_mut() {
    let mut a = BytesMut::from("hello world boooo yah world zomg wat wat");
    a.advance(16);
    assert_eq!(a, b"o yah world zomg wat wat"[..]);

    a.advance(4);
    assert_eq!(a, b"h world zomg wat wat"[..]);

    // Reserve some space.
    a.reserve(1024);
    assert_eq!(a, b"h world zomg wat wat"[..]);

    a.advance(6);
    assert_eq!(a, b"d zomg wat wat"[..]);
}

// Ensures BytesMut::advance reduces always capacity
//
// See https://github.com/tokio-rs/bytes/issues/725
#[test]
fn advance_bytes_mut_remaining_capacity() {
    // reduce the search space under miri
    let max_capacity = if cfg!(miri) { 16 } else { 256 };
    for capacity in 0..=max_capacity {
        for len in 0..=capacity {
            for advance in 0..=len {
                eprintln!("testing capacity={capacity}, len={len}, advance={advance}");
                let mut buf = BytesMut::with_capacity(capacity);

                buf.resize(len, 42);
                assert_eq!(buf.len(), len, "resize should write `len` bytes");
                assert_eq!(
                    buf.remaining(),
                    len,
                    "Buf::remaining() should equal BytesMut::len"
                );

                buf.advance(advance);
                assert_eq!(
                    buf.remaining(),
                    len - advance,
                    "Buf::advance should reduce the remaining len"
                );
                assert_eq!(
                    buf.capacity(),
                    capacity - advance,
                    "Buf::advance should reduce the remaining capacity"
                );
            }
        }
    }
}

#[test]
#[should_panic]
fn advance_past_len() {
    let mut a = BytesMut::from("hello world");
    a.advance(20);
}

#[test]
#[should_panic]
fn mut_advance_past_len() {
    let mut a = BytesMut::from("hello world");
    unsafe {
        a.advance_mut(20);
    }
}

#[test]
// Only run these tests on little endian systems. CI uses qemu for testing
// big endian... and qemu doesn't really support threading all that well.
#[cfg(any(miri, target_endian = "little"))]
#[cfg(not(target_family = "wasm"))] // wasm without experimental threads proposal doesn't support threads
fn stress() {
    // Tests promoting a buffer from a vec -> shared in a concurrent situation
    use std::sync::{Arc, Barrier};
    use std::thread;

    const THREADS: usize = 8;
    const ITERS: usize = if cfg!(miri) { 100 } else { 1_000 };

    for i in 0..ITERS {
        let data = [i as u8; 256];
        let buf = Arc::new(Bytes::copy_from_slice(&data[..]));

        let barrier = Arc::new(Barrier::new(THREADS));
        let mut joins = Vec::with_capacity(THREADS);

        for _ in 0..THREADS {
            let c = barrier.clone();
            let buf = buf.clone();

            joins.push(thread::spawn(move || {
                c.wait();
                let buf: Bytes = (*buf).clone();
                drop(buf);
            }));
        }

        for th in joins {
            th.join().unwrap();
        }

        assert_eq!(*buf, data[..]);
    }
}

#[test]
fn partial_eq_bytesmut() {
    let bytes = Bytes::from(&b"The quick red fox"[..]);
    let bytesmut = BytesMut::from(&b"The quick red fox"[..]);
    assert!(bytes == bytesmut);
    assert!(bytesmut == bytes);
    let bytes2 = Bytes::from(&b"Jumped over the lazy brown dog"[..]);
    assert!(bytes2 != bytesmut);
    assert!(bytesmut != bytes2);
}

#[test]
fn bytes_mut_unsplit_basic() {
    let mut buf = BytesMut::with_capacity(64);
    buf.extend_from_slice(b"aaabbbcccddd");

    let splitted = buf.split_off(6);
    assert_eq!(b"aaabbb", &buf[..]);
    assert_eq!(b"cccddd", &splitted[..]);

    buf.unsplit(splitted);
    assert_eq!(b"aaabbbcccddd", &buf[..]);
}

#[test]
fn bytes_mut_unsplit_empty_other() {
    let mut buf = BytesMut::with_capacity(64);
    buf.extend_from_slice(b"aaabbbcccddd");

    // empty other
    let other = BytesMut::new();

    buf.unsplit(other);
    assert_eq!(b"aaabbbcccddd", &buf[..]);
}

#[test]
fn bytes_mut_unsplit_empty_self() {
    // empty self
    let mut buf = BytesMut::new();

    let mut other = BytesMut::with_capacity(64);
    other.extend_from_slice(b"aaabbbcccddd");

    buf.unsplit(other);
    assert_eq!(b"aaabbbcccddd", &buf[..]);
}

#[test]
fn bytes_mut_unsplit_other_keeps_capacity() {
    let mut buf = BytesMut::with_capacity(64);
    buf.extend_from_slice(b"aabb");

    // non empty other created "from" buf
    let mut other = buf.split_off(buf.len());
    other.extend_from_slice(b"ccddee");
    buf.unsplit(other);

    assert_eq!(buf.capacity(), 64);
}

#[test]
fn bytes_mut_unsplit_empty_other_keeps_capacity() {
    let mut buf = BytesMut::with_capacity(64);
    buf.extend_from_slice(b"aabbccddee");

    // empty other created "from" buf
    let other = buf.split_off(buf.len());
    buf.unsplit(other);

    assert_eq!(buf.capacity(), 64);
}

#[test]
fn bytes_mut_unsplit_arc_different() {
    let mut buf = BytesMut::with_capacity(64);
    buf.extend_from_slice(b"aaaabbbbeeee");

    let _ = buf.split_off(8); //arc

    let mut buf2 = BytesMut::with_capacity(64);
    buf2.extend_from_slice(b"ccccddddeeee");

    let _ = buf2.split_off(8); //arc

    buf.unsplit(buf2);
    assert_eq!(b"aaaabbbbccccdddd", &buf[..]);
}

#[test]
fn bytes_mut_unsplit_arc_non_contiguous() {
    let mut buf = BytesMut::with_capacity(64);
    buf.extend_from_slice(b"aaaabbbbeeeeccccdddd");

    let mut buf2 = buf.split_off(8); //arc

    let buf3 = buf2.split_off(4); //arc

    buf.unsplit(buf3);
    assert_eq!(b"aaaabbbbccccdddd", &buf[..]);
}

#[test]
fn bytes_mut_unsplit_two_split_offs() {
    let mut buf = BytesMut::with_capacity(64);
    buf.extend_from_slice(b"aaaabbbbccccdddd");

    let mut buf2 = buf.split_off(8); //arc
    let buf3 = buf2.split_off(4); //arc

    buf2.unsplit(buf3);
    buf.unsplit(buf2);
    assert_eq!(b"aaaabbbbccccdddd", &buf[..]);
}

#[test]
fn from_iter_no_size_hint() {
    use std::iter;

    let mut expect = vec![];

    let actual: Bytes = iter::repeat(b'x')
        .scan(100, |cnt, item| {
            if *cnt >= 1 {
                *cnt -= 1;
                expect.push(item);
                Some(item)
            } else {
                None
            }
        })
        .collect();

    assert_eq!(&actual[..], &expect[..]);
}

fn test_slice_ref(bytes: &Bytes, start: usize, end: usize, expected: &[u8]) {
    let slice = &(bytes.as_ref()[start..end]);
    let sub = bytes.slice_ref(slice);
    assert_eq!(&sub[..], expected);
}

#[test]
fn slice_ref_works() {
    let bytes = Bytes::from(&b"012345678"[..]);

    test_slice_ref(&bytes, 0, 0, b"");
    test_slice_ref(&bytes, 0, 3, b"012");
    test_slice_ref(&bytes, 2, 6, b"2345");
    test_slice_ref(&bytes, 7, 9, b"78");
    test_slice_ref(&bytes, 9, 9, b"");
}

#[test]
fn slice_ref_empty() {
    let bytes = Bytes::from(&b""[..]);
    let slice = &(bytes.as_ref()[0..0]);

    let sub = bytes.slice_ref(slice);
    assert_eq!(&sub[..], b"");
}

#[test]
fn slice_ref_empty_subslice() {
    let bytes = Bytes::from(&b"abcde"[..]);
    let subbytes = bytes.slice(0..0);
    let slice = &subbytes[..];
    // The `slice` object is derived from the original `bytes` object
    // so `slice_ref` should work.
    assert_eq!(Bytes::new(), bytes.slice_ref(slice));
}

#[test]
#[should_panic]
fn slice_ref_catches_not_a_subset() {
    let bytes = Bytes::from(&b"012345678"[..]);
    let slice = &b"012345"[0..4];

    bytes.slice_ref(slice);
}

#[test]
fn slice_ref_not_an_empty_subset() {
    let bytes = Bytes::from(&b"012345678"[..]);
    let slice = &b""[0..0];

    assert_eq!(Bytes::new(), bytes.slice_ref(slice));
}

#[test]
fn empty_slice_ref_not_an_empty_subset() {
    let bytes = Bytes::new();
    let slice = &b"some other slice"[0..0];

    assert_eq!(Bytes::new(), bytes.slice_ref(slice));
}

#[test]
fn bytes_buf_mut_advance() {
    let mut bytes = BytesMut::with_capacity(1024);

    unsafe {
        let ptr = bytes.chunk_mut().as_mut_ptr();
        assert_eq!(1024, bytes.chunk_mut().len());

        bytes.advance_mut(10);

        let next = bytes.chunk_mut().as_mut_ptr();
        assert_eq!(1024 - 10, bytes.chunk_mut().len());
        assert_eq!(ptr.offset(10), next);

        // advance to the end
        bytes.advance_mut(1024 - 10);

        // The buffer size is doubled
        assert_eq!(1024, bytes.chunk_mut().len());
    }
}

#[test]
fn bytes_buf_mut_reuse_when_fully_consumed() {
    use bytes::{Buf, BytesMut};
    let mut buf = BytesMut::new();
    buf.reserve(8192);
    buf.extend_from_slice(&[0u8; 100][..]);

    let p = &buf[0] as *const u8;
    buf.advance(100);

    buf.reserve(8192);
    buf.extend_from_slice(b" ");

    assert_eq!(&buf[0] as *const u8, p);
}

#[test]
#[should_panic]
fn bytes_reserve_overflow() {
    let mut bytes = BytesMut::with_capacity(1024);
    bytes.put_slice(b"hello world");

    bytes.reserve(usize::MAX);
}

#[test]
fn bytes_with_capacity_but_empty() {
    // See https://github.com/tokio-rs/bytes/issues/340
    let vec = Vec::with_capacity(1);
    let _ = Bytes::from(vec);
}

#[test]
fn bytes_put_bytes() {
    let mut bytes = BytesMut::new();
    bytes.put_u8(17);
    bytes.put_bytes(19, 2);
    assert_eq!([17, 19, 19], bytes.as_ref());
}

#[test]
fn box_slice_empty() {
    // See https://github.com/tokio-rs/bytes/issues/340
    let empty: Box<[u8]> = Default::default();
    let b = Bytes::from(empty);
    assert!(b.is_empty());
}

#[test]
fn bytes_into_vec() {
    // Test kind == KIND_VEC
    let content = b"helloworld";

    let mut bytes = BytesMut::new();
    bytes.put_slice(content);

    let vec: Vec<u8> = bytes.into();
    assert_eq!(&vec, content);

    // Test kind == KIND_ARC, shared.is_unique() == True
    let mut bytes = BytesMut::new();
    bytes.put_slice(b"abcdewe23");
    bytes.put_slice(content);

    // Overwrite the bytes to make sure only one reference to the underlying
    // Vec exists.
    bytes = bytes.split_off(9);

    let vec: Vec<u8> = bytes.into();
    assert_eq!(&vec, content);

    // Test kind == KIND_ARC, shared.is_unique() == False
    let prefix = b"abcdewe23";

    let mut bytes = BytesMut::new();
    bytes.put_slice(prefix);
    bytes.put_slice(content);

    let vec: Vec<u8> = bytes.split_off(prefix.len()).into();
    assert_eq!(&vec, content);

    let vec: Vec<u8> = bytes.into();
    assert_eq!(&vec, prefix);
}

#[test]
fn test_bytes_into_vec() {
    // Test STATIC_VTABLE.to_vec
    let bs = b"1b23exfcz3r";
    let vec: Vec<u8> = Bytes::from_static(bs).into();
    assert_eq!(&*vec, bs);

    // Test bytes_mut.SHARED_VTABLE.to_vec impl
    eprintln!("1");
    let mut bytes_mut: BytesMut = bs[..].into();

    // Set kind to KIND_ARC so that after freeze, Bytes will use bytes_mut.SHARED_VTABLE
    eprintln!("2");
    drop(bytes_mut.split_off(bs.len()));

    eprintln!("3");
    let b1 = bytes_mut.freeze();
    eprintln!("4");
    let b2 = b1.clone();

    eprintln!("{:#?}", (&*b1).as_ptr());

    // shared.is_unique() = False
    eprintln!("5");
    assert_eq!(&*Vec::from(b2), bs);

    // shared.is_unique() = True
    eprintln!("6");
    assert_eq!(&*Vec::from(b1), bs);

    // Test bytes_mut.SHARED_VTABLE.to_vec impl where offset != 0
    let mut bytes_mut1: BytesMut = bs[..].into();
    let bytes_mut2 = bytes_mut1.split_off(9);

    let b1 = bytes_mut1.freeze();
    let b2 = bytes_mut2.freeze();

    assert_eq!(Vec::from(b2), bs[9..]);
    assert_eq!(Vec::from(b1), bs[..9]);
}

#[test]
fn test_bytes_into_vec_promotable_even() {
    let vec = vec![33u8; 1024];

    // Test cases where kind == KIND_VEC
    let b1 = Bytes::from(vec.clone());
    assert_eq!(Vec::from(b1), vec);

    // Test cases where kind == KIND_ARC, ref_cnt == 1
    let b1 = Bytes::from(vec.clone());
    drop(b1.clone());
    assert_eq!(Vec::from(b1), vec);

    // Test cases where kind == KIND_ARC, ref_cnt == 2
    let b1 = Bytes::from(vec.clone());
    let b2 = b1.clone();
    assert_eq!(Vec::from(b1), vec);

    // Test cases where vtable = SHARED_VTABLE, kind == KIND_ARC, ref_cnt == 1
    assert_eq!(Vec::from(b2), vec);

    // Test cases where offset != 0
    let mut b1 = Bytes::from(vec.clone());
    let b2 = b1.split_off(20);

    assert_eq!(Vec::from(b2), vec[20..]);
    assert_eq!(Vec::from(b1), vec[..20]);
}

#[test]
fn test_bytes_vec_conversion() {
    let mut vec = Vec::with_capacity(10);
    vec.extend(b"abcdefg");
    let b = Bytes::from(vec);
    let v = Vec::from(b);
    assert_eq!(v.len(), 7);
    assert_eq!(v.capacity(), 10);

    let mut b = Bytes::from(v);
    b.advance(1);
    let v = Vec::from(b);
    assert_eq!(v.len(), 6);
    assert_eq!(v.capacity(), 10);
    assert_eq!(v.as_slice(), b"bcdefg");
}

#[test]
fn test_bytes_mut_conversion() {
    let mut b1 = BytesMut::with_capacity(10);
    b1.extend(b"abcdefg");
    let b2 = Bytes::from(b1);
    let v = Vec::from(b2);
    assert_eq!(v.len(), 7);
    assert_eq!(v.capacity(), 10);

    let mut b = Bytes::from(v);
    b.advance(1);
    let v = Vec::from(b);
    assert_eq!(v.len(), 6);
    assert_eq!(v.capacity(), 10);
    assert_eq!(v.as_slice(), b"bcdefg");
}

#[test]
fn test_bytes_capacity_len() {
    for cap in 0..100 {
        for len in 0..=cap {
            let mut v = Vec::with_capacity(cap);
            v.resize(len, 0);
            let _ = Bytes::from(v);
        }
    }
}

#[test]
fn static_is_unique() {
    let b = Bytes::from_static(LONG);
    assert!(!b.is_unique());
}

#[test]
fn vec_is_unique() {
    let v: Vec<u8> = LONG.to_vec();
    let b = Bytes::from(v);
    assert!(b.is_unique());
}

#[test]
fn arc_is_unique() {
    let v: Vec<u8> = LONG.to_vec();
    let b = Bytes::from(v);
    let c = b.clone();
    assert!(!b.is_unique());
    drop(c);
    assert!(b.is_unique());
}

#[test]
fn shared_is_unique() {
    let v: Vec<u8> = LONG.to_vec();
    let b = Bytes::from(v);
    let c = b.clone();
    assert!(!c.is_unique());
    drop(b);
    assert!(c.is_unique());
}

#[test]
fn mut_shared_is_unique() {
    let mut b = BytesMut::from(LONG);
    let c = b.split().freeze();
    assert!(!c.is_unique());
    drop(b);
    assert!(c.is_unique());
}

#[test]
fn test_bytesmut_from_bytes_static() {
    let bs = b"1b23exfcz3r";

    // Test STATIC_VTABLE.to_mut
    let bytes_mut = BytesMut::from(Bytes::from_static(bs));
    assert_eq!(bytes_mut, bs[..]);
}

#[test]
fn test_bytesmut_from_bytes_bytes_mut_vec() {
    let bs = b"1b23exfcz3r";
    let bs_long = b"1b23exfcz3r1b23exfcz3r";

    // Test case where kind == KIND_VEC
    let mut bytes_mut: BytesMut = bs[..].into();
    bytes_mut = BytesMut::from(bytes_mut.freeze());
    assert_eq!(bytes_mut, bs[..]);
    bytes_mut.extend_from_slice(&bs[..]);
    assert_eq!(bytes_mut, bs_long[..]);
}

#[test]
fn test_bytesmut_from_bytes_bytes_mut_shared() {
    let bs = b"1b23exfcz3r";

    // Set kind to KIND_ARC so that after freeze, Bytes will use bytes_mut.SHARED_VTABLE
    let mut bytes_mut: BytesMut = bs[..].into();
    drop(bytes_mut.split_off(bs.len()));

    let b1 = bytes_mut.freeze();
    let b2 = b1.clone();

    // shared.is_unique() = False
    let mut b1m = BytesMut::from(b1);
    assert_eq!(b1m, bs[..]);
    b1m[0] = b'9';

    // shared.is_unique() = True
    let b2m = BytesMut::from(b2);
    assert_eq!(b2m, bs[..]);
}

#[test]
fn test_bytesmut_from_bytes_bytes_mut_offset() {
    let bs = b"1b23exfcz3r";

    // Test bytes_mut.SHARED_VTABLE.to_mut impl where offset != 0
    let mut bytes_mut1: BytesMut = bs[..].into();
    let bytes_mut2 = bytes_mut1.split_off(9);

    let b1 = bytes_mut1.freeze();
    let b2 = bytes_mut2.freeze();

    let b1m = BytesMut::from(b1);
    let b2m = BytesMut::from(b2);

    assert_eq!(b2m, bs[9..]);
    assert_eq!(b1m, bs[..9]);
}

#[test]
fn test_bytesmut_from_bytes_promotable_even_vec() {
    let vec = vec![33u8; 1024];

    // Test case where kind == KIND_VEC
    let b1 = Bytes::from(vec.clone());
    let b1m = BytesMut::from(b1);
    assert_eq!(b1m, vec);
}

#[test]
fn test_bytesmut_from_bytes_promotable_even_arc_1() {
    let vec = vec![33u8; 1024];

    // Test case where kind == KIND_ARC, ref_cnt == 1
    let b1 = Bytes::from(vec.clone());
    drop(b1.clone());
    let b1m = BytesMut::from(b1);
    assert_eq!(b1m, vec);
}

#[test]
fn test_bytesmut_from_bytes_promotable_even_arc_2() {
    let vec = vec![33u8; 1024];

    // Test case where kind == KIND_ARC, ref_cnt == 2
    let b1 = Bytes::from(vec.clone());
    let b2 = b1.clone();
    let b1m = BytesMut::from(b1);
    assert_eq!(b1m, vec);

    // Test case where vtable = SHARED_VTABLE, kind == KIND_ARC, ref_cnt == 1
    let b2m = BytesMut::from(b2);
    assert_eq!(b2m, vec);
}

#[test]
fn test_bytesmut_from_bytes_promotable_even_arc_offset() {
    let vec = vec![33u8; 1024];

    // Test case where offset != 0
    let mut b1 = Bytes::from(vec.clone());
    let b2 = b1.split_off(20);
    let b1m = BytesMut::from(b1);
    let b2m = BytesMut::from(b2);

    assert_eq!(b2m, vec[20..]);
    assert_eq!(b1m, vec[..20]);
}

#[test]
fn try_reclaim_empty() {
    let mut buf = BytesMut::new();
    assert_eq!(false, buf.try_reclaim(6));
    buf.reserve(6);
    assert_eq!(true, buf.try_reclaim(6));
    let cap = buf.capacity();
    assert!(cap >= 6);
    assert_eq!(false, buf.try_reclaim(cap + 1));

    let mut buf = BytesMut::new();
    buf.reserve(6);
    let cap = buf.capacity();
    assert!(cap >= 6);
    let mut split = buf.split();
    drop(buf);
    assert_eq!(0, split.capacity());
    assert_eq!(true, split.try_reclaim(6));
    assert_eq!(false, split.try_reclaim(cap + 1));
}

#[test]
fn try_reclaim_vec() {
    let mut buf = BytesMut::with_capacity(6);
    buf.put_slice(b"abc");
    // Reclaiming a ludicrous amount of space should calmly return false
    assert_eq!(false, buf.try_reclaim(usize::MAX));

    assert_eq!(false, buf.try_reclaim(6));
    buf.advance(2);
    assert_eq!(4, buf.capacity());
    // We can reclaim 5 bytes, because the byte in the buffer can be moved to the front. 6 bytes
    // cannot be reclaimed because there is already one byte stored
    assert_eq!(false, buf.try_reclaim(6));
    assert_eq!(true, buf.try_reclaim(5));
    buf.advance(1);
    assert_eq!(true, buf.try_reclaim(6));
    assert_eq!(6, buf.capacity());
}

#[test]
fn try_reclaim_arc() {
    let mut buf = BytesMut::with_capacity(6);
    buf.put_slice(b"abc");
    let x = buf.split().freeze();
    buf.put_slice(b"def");
    // Reclaiming a ludicrous amount of space should calmly return false
    assert_eq!(false, buf.try_reclaim(usize::MAX));

    let y = buf.split().freeze();
    let z = y.clone();
    assert_eq!(false, buf.try_reclaim(6));
    drop(x);
    drop(z);
    assert_eq!(false, buf.try_reclaim(6));
    drop(y);
    assert_eq!(true, buf.try_reclaim(6));
    assert_eq!(6, buf.capacity());
    assert_eq!(0, buf.len());
    buf.put_slice(b"abc");
    buf.put_slice(b"def");
    assert_eq!(6, buf.capacity());
    assert_eq!(6, buf.len());
    assert_eq!(false, buf.try_reclaim(6));
    buf.advance(4);
    assert_eq!(true, buf.try_reclaim(4));
    buf.advance(2);
    assert_eq!(true, buf.try_reclaim(6));
}

#[test]
fn slice_empty_addr() {
    let buf = Bytes::from(vec![0; 1024]);

    let ptr_start = buf.as_ptr();
    let ptr_end = ptr_start.wrapping_add(1024);

    let empty_end = buf.slice(1024..);
    assert_eq!(empty_end.len(), 0);
    assert_eq!(empty_end.as_ptr(), ptr_end);

    let empty_start = buf.slice(..0);
    assert_eq!(empty_start.len(), 0);
    assert_eq!(empty_start.as_ptr(), ptr_start);

    // Is miri happy about the provenance?
    let _ = &empty_end[..];
    let _ = &empty_start[..];
}

#[test]
fn split_off_empty_addr() {
    let mut buf = Bytes::from(vec![0; 1024]);

    let ptr_start = buf.as_ptr();
    let ptr_end = ptr_start.wrapping_add(1024);

    let empty_end = buf.split_off(1024);
    assert_eq!(empty_end.len(), 0);
    assert_eq!(empty_end.as_ptr(), ptr_end);

    let _ = buf.split_off(0);
    assert_eq!(buf.len(), 0);
    assert_eq!(buf.as_ptr(), ptr_start);

    // Is miri happy about the provenance?
    let _ = &empty_end[..];
    let _ = &buf[..];
}

#[test]
fn split_to_empty_addr() {
    let mut buf = Bytes::from(vec![0; 1024]);

    let ptr_start = buf.as_ptr();
    let ptr_end = ptr_start.wrapping_add(1024);

    let empty_start = buf.split_to(0);
    assert_eq!(empty_start.len(), 0);
    assert_eq!(empty_start.as_ptr(), ptr_start);

    let _ = buf.split_to(1024);
    assert_eq!(buf.len(), 0);
    assert_eq!(buf.as_ptr(), ptr_end);

    // Is miri happy about the provenance?
    let _ = &empty_start[..];
    let _ = &buf[..];
}

#[test]
fn split_off_empty_addr_mut() {
    let mut buf = BytesMut::from([0; 1024].as_slice());

    let ptr_start = buf.as_ptr();
    let ptr_end = ptr_start.wrapping_add(1024);

    let empty_end = buf.split_off(1024);
    assert_eq!(empty_end.len(), 0);
    assert_eq!(empty_end.as_ptr(), ptr_end);

    let _ = buf.split_off(0);
    assert_eq!(buf.len(), 0);
    assert_eq!(buf.as_ptr(), ptr_start);

    // Is miri happy about the provenance?
    let _ = &empty_end[..];
    let _ = &buf[..];
}

#[test]
fn split_to_empty_addr_mut() {
    let mut buf = BytesMut::from([0; 1024].as_slice());

    let ptr_start = buf.as_ptr();
    let ptr_end = ptr_start.wrapping_add(1024);

    let empty_start = buf.split_to(0);
    assert_eq!(empty_start.len(), 0);
    assert_eq!(empty_start.as_ptr(), ptr_start);

    let _ = buf.split_to(1024);
    assert_eq!(buf.len(), 0);
    assert_eq!(buf.as_ptr(), ptr_end);

    // Is miri happy about the provenance?
    let _ = &empty_start[..];
    let _ = &buf[..];
}

#[derive(Clone)]
struct SharedAtomicCounter(Arc<AtomicUsize>);

impl SharedAtomicCounter {
    pub fn new() -> Self {
        SharedAtomicCounter(Arc::new(AtomicUsize::new(0)))
    }

    pub fn increment(&self) {
        self.0.fetch_add(1, Ordering::AcqRel);
    }

    pub fn get(&self) -> usize {
        self.0.load(Ordering::Acquire)
    }
}

#[derive(Clone)]
struct OwnedTester<const L: usize> {
    buf: [u8; L],
    drop_count: SharedAtomicCounter,
    pub panic_as_ref: bool,
}

impl<const L: usize> OwnedTester<L> {
    fn new(buf: [u8; L], drop_count: SharedAtomicCounter) -> Self {
        Self {
            buf,
            drop_count,
            panic_as_ref: false,
        }
    }
}

impl<const L: usize> AsRef<[u8]> for OwnedTester<L> {
    fn as_ref(&self) -> &[u8] {
        if self.panic_as_ref {
            panic!("test-triggered panic in `AsRef<[u8]> for OwnedTester`");
        }
        self.buf.as_slice()
    }
}

impl<const L: usize> Drop for OwnedTester<L> {
    fn drop(&mut self) {
        self.drop_count.increment();
    }
}

#[test]
fn owned_is_unique_always_false() {
    let b1 = Bytes::from_owner([1, 2, 3, 4, 5, 6, 7]);
    assert!(!b1.is_unique()); // even if ref_cnt == 1
    let b2 = b1.clone();
    assert!(!b1.is_unique());
    assert!(!b2.is_unique());
    drop(b1);
    assert!(!b2.is_unique()); // even if ref_cnt == 1
}

#[test]
fn owned_buf_sharing() {
    let buf = [1, 2, 3, 4, 5, 6, 7];
    let b1 = Bytes::from_owner(buf);
    let b2 = b1.clone();
    assert_eq!(&buf[..], &b1[..]);
    assert_eq!(&buf[..], &b2[..]);
    assert_eq!(b1.as_ptr(), b2.as_ptr());
    assert_eq!(b1.len(), b2.len());
    assert_eq!(b1.len(), buf.len());
}

#[test]
fn owned_buf_slicing() {
    let b1 = Bytes::from_owner(SHORT);
    assert_eq!(SHORT, &b1[..]);
    let b2 = b1.slice(1..(b1.len() - 1));
    assert_eq!(&SHORT[1..(SHORT.len() - 1)], b2);
    assert_eq!(unsafe { SHORT.as_ptr().add(1) }, b2.as_ptr());
    assert_eq!(SHORT.len() - 2, b2.len());
}

#[test]
fn owned_dropped_exactly_once() {
    let buf: [u8; 5] = [1, 2, 3, 4, 5];
    let drop_counter = SharedAtomicCounter::new();
    let owner = OwnedTester::new(buf, drop_counter.clone());
    let b1 = Bytes::from_owner(owner);
    let b2 = b1.clone();
    assert_eq!(drop_counter.get(), 0);
    drop(b1);
    assert_eq!(drop_counter.get(), 0);
    let b3 = b2.slice(1..b2.len() - 1);
    drop(b2);
    assert_eq!(drop_counter.get(), 0);
    drop(b3);
    assert_eq!(drop_counter.get(), 1);
}

#[test]
fn owned_to_mut() {
    let buf: [u8; 10] = [0, 1, 2, 3, 4, 5, 6, 7, 8, 9];
    let drop_counter = SharedAtomicCounter::new();
    let owner = OwnedTester::new(buf, drop_counter.clone());
    let b1 = Bytes::from_owner(owner);

    // Holding an owner will fail converting to a BytesMut,
    // even when the bytes instance has a ref_cnt == 1.
    let b1 = b1.try_into_mut().unwrap_err();

    // That said, it's still possible, just not cheap.
    let bm1: BytesMut = b1.into();
    let new_buf = &bm1[..];
    assert_eq!(new_buf, &buf[..]);

    // `.into::<BytesMut>()` has correctly dropped the owner
    assert_eq!(drop_counter.get(), 1);
}

#[test]
fn owned_to_vec() {
    let buf: [u8; 10] = [0, 1, 2, 3, 4, 5, 6, 7, 8, 9];
    let drop_counter = SharedAtomicCounter::new();
    let owner = OwnedTester::new(buf, drop_counter.clone());
    let b1 = Bytes::from_owner(owner);

    let v1 = b1.to_vec();
    assert_eq!(&v1[..], &buf[..]);
    assert_eq!(&v1[..], &b1[..]);

    drop(b1);
    assert_eq!(drop_counter.get(), 1);
}

#[test]
fn owned_into_vec() {
    let drop_counter = SharedAtomicCounter::new();
    let buf: [u8; 10] = [0, 1, 2, 3, 4, 5, 6, 7, 8, 9];
    let owner = OwnedTester::new(buf, drop_counter.clone());
    let b1 = Bytes::from_owner(owner);

    let v1: Vec<u8> = b1.into();
    assert_eq!(&v1[..], &buf[..]);
    // into() vec will copy out of the owner and drop it
    assert_eq!(drop_counter.get(), 1);
}

#[test]
#[cfg_attr(not(panic = "unwind"), ignore)]
fn owned_safe_drop_on_as_ref_panic() {
    let buf: [u8; 10] = [0, 1, 2, 3, 4, 5, 6, 7, 8, 9];
    let drop_counter = SharedAtomicCounter::new();
    let mut owner = OwnedTester::new(buf, drop_counter.clone());
    owner.panic_as_ref = true;

    let result = panic::catch_unwind(AssertUnwindSafe(|| {
        let _ = Bytes::from_owner(owner);
    }));

    assert!(result.is_err());
    assert_eq!(drop_counter.get(), 1);
}

/// Test `BytesMut::put` reuses allocation of `Bytes`.
#[test]
fn bytes_mut_put_bytes_specialization() {
    let mut vec = Vec::with_capacity(1234);
    vec.push(10);
    let capacity = vec.capacity();
    assert!(capacity >= 1234);

    // Make `Bytes` backed by `Vec`.
    let bytes = Bytes::from(vec);
    let mut bytes_mut = BytesMut::new();
    bytes_mut.put(bytes);

    // Check contents is correct.
    assert_eq!(&[10], bytes_mut.as_ref());
    // If allocation is reused, capacity should be equal to original vec capacity.
    assert_eq!(bytes_mut.capacity(), capacity);
}

#![warn(rust_2018_idioms)]

use bytes::buf::UninitSlice;
use bytes::{BufMut, BytesMut};
use core::fmt::Write;
use core::mem::MaybeUninit;

#[test]
fn test_vec_as_mut_buf() {
    let mut buf = Vec::with_capacity(64);

    assert_eq!(buf.remaining_mut(), isize::MAX as usize);

    assert!(buf.chunk_mut().len() >= 64);

    buf.put(&b"zomg"[..]);

    assert_eq!(&buf, b"zomg");

    assert_eq!(buf.remaining_mut(), isize::MAX as usize - 4);
    assert_eq!(buf.capacity(), 64);

    for _ in 0..16 {
        buf.put(&b"zomg"[..]);
    }

    assert_eq!(buf.len(), 68);
}

#[test]
fn test_vec_put_bytes() {
    let mut buf = Vec::new();
    buf.push(17);
    buf.put_bytes(19, 2);
    assert_eq!([17, 19, 19], &buf[..]);
}

#[test]
fn test_put_u8() {
    let mut buf = Vec::with_capacity(8);
    buf.put_u8(33);
    assert_eq!(b"\x21", &buf[..]);
}

#[test]
fn test_put_u16() {
    let mut buf = Vec::with_capacity(8);
    buf.put_u16(8532);
    assert_eq!(b"\x21\x54", &buf[..]);

    buf.clear();
    buf.put_u16_le(8532);
    assert_eq!(b"\x54\x21", &buf[..]);
}

#[test]
fn test_put_int() {
    let mut buf = Vec::with_capacity(8);
    buf.put_int(0x1020304050607080, 3);
    assert_eq!(b"\x60\x70\x80", &buf[..]);
}

#[test]
#[should_panic]
fn test_put_int_nbytes_overflow() {
    let mut buf = Vec::with_capacity(8);
    buf.put_int(0x1020304050607080, 9);
}

#[test]
fn test_put_int_le() {
    let mut buf = Vec::with_capacity(8);
    buf.put_int_le(0x1020304050607080, 3);
    assert_eq!(b"\x80\x70\x60", &buf[..]);
}

#[test]
#[should_panic]
fn test_put_int_le_nbytes_overflow() {
    let mut buf = Vec::with_capacity(8);
    buf.put_int_le(0x1020304050607080, 9);
}

#[test]
#[should_panic(expected = "advance out of bounds: the len is 8 but advancing by 12")]
fn test_vec_advance_mut() {
    // Verify fix for #354
    let mut buf = Vec::with_capacity(8);
    unsafe {
        buf.advance_mut(12);
    }
}

#[test]
fn test_clone() {
    let mut buf = BytesMut::with_capacity(100);
    buf.write_str("this is a test").unwrap();
    let buf2 = buf.clone();

    buf.write_str(" of our emergency broadcast system").unwrap();
    assert!(buf != buf2);
}

fn do_test_slice_small<T: ?Sized>(make: impl Fn(&mut [u8]) -> &mut T)
where
    for<'r> &'r mut T: BufMut,
{
    let mut buf = [b'X'; 8];

    let mut slice = make(&mut buf[..]);
    slice.put_bytes(b'A', 2);
    slice.put_u8(b'B');
    slice.put_slice(b"BCC");
    assert_eq!(2, slice.remaining_mut());
    assert_eq!(b"AABBCCXX", &buf[..]);

    let mut slice = make(&mut buf[..]);
    slice.put_u32(0x61626364);
    assert_eq!(4, slice.remaining_mut());
    assert_eq!(b"abcdCCXX", &buf[..]);

    let mut slice = make(&mut buf[..]);
    slice.put_u32_le(0x30313233);
    assert_eq!(4, slice.remaining_mut());
    assert_eq!(b"3210CCXX", &buf[..]);
}

fn do_test_slice_large<T: ?Sized>(make: impl Fn(&mut [u8]) -> &mut T)
where
    for<'r> &'r mut T: BufMut,
{
    const LEN: usize = 100;
    const FILL: [u8; LEN] = [b'Y'; LEN];

    let test = |fill: &dyn Fn(&mut &mut T, usize)| {
        for buf_len in 0..LEN {
            let mut buf = [b'X'; LEN];
            for fill_len in 0..=buf_len {
                let mut slice = make(&mut buf[..buf_len]);
                fill(&mut slice, fill_len);
                assert_eq!(buf_len - fill_len, slice.remaining_mut());
                let (head, tail) = buf.split_at(fill_len);
                assert_eq!(&FILL[..fill_len], head);
                assert!(tail.iter().all(|b| *b == b'X'));
            }
        }
    };

    test(&|slice, fill_len| slice.put_slice(&FILL[..fill_len]));
    test(&|slice, fill_len| slice.put_bytes(FILL[0], fill_len));
}

fn do_test_slice_put_slice_panics<T: ?Sized>(make: impl Fn(&mut [u8]) -> &mut T)
where
    for<'r> &'r mut T: BufMut,
{
    let mut buf = [b'X'; 4];
    let mut slice = make(&mut buf[..]);
    slice.put_slice(b"12345");
}

fn do_test_slice_put_bytes_panics<T: ?Sized>(make: impl Fn(&mut [u8]) -> &mut T)
where
    for<'r> &'r mut T: BufMut,
{
    let mut buf = [b'X'; 4];
    let mut slice = make(&mut buf[..]);
    slice.put_bytes(b'1', 5);
}

#[test]
fn test_slice_buf_mut_small() {
    do_test_slice_small(|x| x);
}

#[test]
fn test_slice_buf_mut_large() {
    do_test_slice_large(|x| x);
}

#[test]
#[should_panic]
fn test_slice_buf_mut_put_slice_overflow() {
    do_test_slice_put_slice_panics(|x| x);
}

#[test]
#[should_panic]
fn test_slice_buf_mut_put_bytes_overflow() {
    do_test_slice_put_bytes_panics(|x| x);
}

fn make_maybe_uninit_slice(slice: &mut [u8]) -> &mut [MaybeUninit<u8>] {
    // SAFETY: [u8] has the same layout as [MaybeUninit<u8>].
    unsafe { core::mem::transmute(slice) }
}

#[test]
fn test_maybe_uninit_buf_mut_small() {
    do_test_slice_small(make_maybe_uninit_slice);
}

#[test]
fn test_maybe_uninit_buf_mut_large() {
    do_test_slice_large(make_maybe_uninit_slice);
}

#[test]
#[should_panic]
fn test_maybe_uninit_buf_mut_put_slice_overflow() {
    do_test_slice_put_slice_panics(make_maybe_uninit_slice);
}

#[test]
#[should_panic]
fn test_maybe_uninit_buf_mut_put_bytes_overflow() {
    do_test_slice_put_bytes_panics(make_maybe_uninit_slice);
}

#[allow(unused_allocation)] // This is intentional.
#[test]
fn test_deref_bufmut_forwards() {
    struct Special;

    unsafe impl BufMut for Special {
        fn remaining_mut(&self) -> usize {
            unreachable!("remaining_mut");
        }

        fn chunk_mut(&mut self) -> &mut UninitSlice {
            unreachable!("chunk_mut");
        }

        unsafe fn advance_mut(&mut self, _: usize) {
            unreachable!("advance");
        }

        fn put_u8(&mut self, _: u8) {
            // specialized!
        }
    }

    // these should all use the specialized method
    Special.put_u8(b'x');
    (&mut Special as &mut dyn BufMut).put_u8(b'x');
    (Box::new(Special) as Box<dyn BufMut>).put_u8(b'x');
    Box::new(Special).put_u8(b'x');
}

#[test]
#[should_panic]
fn write_byte_panics_if_out_of_bounds() {
    let mut data = [b'b', b'a', b'r'];

    let slice = unsafe { UninitSlice::from_raw_parts_mut(data.as_mut_ptr(), 3) };
    slice.write_byte(4, b'f');
}

#[test]
#[should_panic]
fn copy_from_slice_panics_if_different_length_1() {
    let mut data = [b'b', b'a', b'r'];

    let slice = unsafe { UninitSlice::from_raw_parts_mut(data.as_mut_ptr(), 3) };
    slice.copy_from_slice(b"a");
}

#[test]
#[should_panic]
fn copy_from_slice_panics_if_different_length_2() {
    let mut data = [b'b', b'a', b'r'];

    let slice = unsafe { UninitSlice::from_raw_parts_mut(data.as_mut_ptr(), 3) };
    slice.copy_from_slice(b"abcd");
}

/// Test if with zero capacity BytesMut does not infinitely recurse in put from Buf
#[test]
fn test_bytes_mut_reuse() {
    let mut buf = BytesMut::new();
    buf.put(&[] as &[u8]);
    let mut buf = BytesMut::new();
    buf.put(&[1u8, 2, 3] as &[u8]);
}

#![cfg(feature = "serde")]
#![warn(rust_2018_idioms)]

use serde_test::{assert_tokens, Token};

#[test]
fn test_ser_de_empty() {
    let b = bytes::Bytes::new();
    assert_tokens(&b, &[Token::Bytes(b"")]);
    let b = bytes::BytesMut::with_capacity(0);
    assert_tokens(&b, &[Token::Bytes(b"")]);
}

#[test]
fn test_ser_de() {
    let b = bytes::Bytes::from(&b"bytes"[..]);
    assert_tokens(&b, &[Token::Bytes(b"bytes")]);
    let b = bytes::BytesMut::from(&b"bytes"[..]);
    assert_tokens(&b, &[Token::Bytes(b"bytes")]);
}

#![warn(rust_2018_idioms)]
#![cfg(feature = "std")]

use std::io::{BufRead, Read};

use bytes::Buf;

#[test]
fn read() {
    let buf1 = &b"hello "[..];
    let buf2 = &b"world"[..];
    let buf = Buf::chain(buf1, buf2); // Disambiguate with Read::chain
    let mut buffer = Vec::new();
    buf.reader().read_to_end(&mut buffer).unwrap();
    assert_eq!(b"hello world", &buffer[..]);
}

#[test]
fn buf_read() {
    let buf1 = &b"hell"[..];
    let buf2 = &b"o\nworld"[..];
    let mut reader = Buf::chain(buf1, buf2).reader();
    let mut line = String::new();
    reader.read_line(&mut line).unwrap();
    assert_eq!("hello\n", &line);
    line.clear();
    reader.read_line(&mut line).unwrap();
    assert_eq!("world", &line);
}

#[test]
fn get_mut() {
    let buf = &b"hello world"[..];
    let mut reader = buf.reader();
    let buf_mut = reader.get_mut();
    assert_eq!(11, buf_mut.remaining());
    assert_eq!(b"hello world", buf_mut);
}

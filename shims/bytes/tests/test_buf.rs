#![warn(rust_2018_idioms)]

use ::bytes::{Buf, Bytes, BytesMut};
use core::{cmp, mem};
use std::collections::VecDeque;
#[cfg(feature = "std")]
use std::io::IoSlice;

// A random 64-byte ascii string, with the first 8 bytes altered to
// give valid representations of f32 and f64 (making them easier to compare)
// and negative signed numbers when interpreting as big endian
// (testing Sign Extension for `Buf::get_int' and `Buf::get_int_ne`).
const INPUT: &[u8] = b"\xffFqrjrDqPhvTc45vvq33f6bJrUtyHESuTeklWKgYd64xgzxJwvAkpYYnpNJyZSRn";

macro_rules! e {
    ($big_endian_val:expr, $little_endian_val:expr) => {
        if cfg!(target_endian = "big") {
            $big_endian_val
        } else {
            $little_endian_val
        }
    };
}

macro_rules! buf_tests {
    ($make_input:ident) => {
        buf_tests!($make_input, true);
    };
    ($make_input:ident, $checks_vectored_is_complete:expr) => {
        use super::*;

        #[test]
        fn empty_state() {
            let buf = $make_input(&[]);
            assert_eq!(buf.remaining(), 0);
            assert!(!buf.has_remaining());
            assert!(buf.chunk().is_empty());
        }

        #[test]
        fn fresh_state() {
            let buf = $make_input(INPUT);
            assert_eq!(buf.remaining(), 64);
            assert!(buf.has_remaining());

            let chunk = buf.chunk();
            assert!(chunk.len() <= 64);
            assert!(INPUT.starts_with(chunk));
        }

        #[test]
        fn advance() {
            let mut buf = $make_input(INPUT);
            buf.advance(8);
            assert_eq!(buf.remaining(), 64 - 8);
            assert!(buf.has_remaining());

            let chunk = buf.chunk();
            assert!(chunk.len() <= 64 - 8);
            assert!(INPUT[8..].starts_with(chunk));
        }

        #[test]
        fn advance_to_end() {
            let mut buf = $make_input(INPUT);
            buf.advance(64);
            assert_eq!(buf.remaining(), 0);
            assert!(!buf.has_remaining());

            let chunk = buf.chunk();
            assert!(chunk.is_empty());
        }

        #[test]
        #[should_panic]
        fn advance_past_end() {
            let  mut buf = $make_input(INPUT);
            buf.advance(65);
        }

        #[test]
        #[cfg(feature = "std")]
        fn chunks_vectored_empty() {
            let  buf = $make_input(&[]);
            let mut bufs = [IoSlice::new(&[]); 16];

            let n = buf.chunks_vectored(&mut bufs);
            assert_eq!(n, 0);
            assert!(bufs.iter().all(|buf| buf.is_empty()));
        }

        #[test]
        #[cfg(feature = "std")]
        fn chunks_vectored_is_complete() {
            let buf = $make_input(INPUT);
            let mut bufs = [IoSlice::new(&[]); 16];

            let n = buf.chunks_vectored(&mut bufs);
            assert!(n > 0);
            assert!(n <= 16);

            let bufs_concat = bufs[..n]
                .iter()
                .flat_map(|b| b.iter().copied())
                .collect::<Vec<u8>>();
            if $checks_vectored_is_complete {
                assert_eq!(bufs_concat, INPUT);
            } else {
                // If this panics then `buf` implements `chunks_vectored`.
                // Remove the `false` argument from `buf_tests!` for that type.
                assert!(bufs_concat.len() < INPUT.len());
                assert!(INPUT.starts_with(&bufs_concat));
            }

            for i in n..16 {
                assert!(bufs[i].is_empty());
            }
        }

        #[test]
        fn copy_to_slice() {
            let mut buf = $make_input(INPUT);

            let mut chunk = [0u8; 8];
            buf.copy_to_slice(&mut chunk);
            assert_eq!(buf.remaining(), 64 - 8);
            assert!(buf.has_remaining());
            assert_eq!(chunk, INPUT[..8]);

            let chunk = buf.chunk();
            assert!(chunk.len() <= 64 - 8);
            assert!(INPUT[8..].starts_with(chunk));
        }

        #[test]
        fn copy_to_slice_big() {
            let mut buf = $make_input(INPUT);

            let mut chunk = [0u8; 56];
            buf.copy_to_slice(&mut chunk);
            assert_eq!(buf.remaining(), 64 - 56);
            assert!(buf.has_remaining());
            assert_eq!(chunk, INPUT[..56]);

            let chunk = buf.chunk();
            assert!(chunk.len() <= 64 - 56);
            assert!(INPUT[56..].starts_with(chunk));
        }

        #[test]
        fn copy_to_slice_to_end() {
            let mut buf = $make_input(INPUT);

            let mut chunk = [0u8; 64];
            buf.copy_to_slice(&mut chunk);
            assert_eq!(buf.remaining(), 0);
            assert!(!buf.has_remaining());
            assert_eq!(chunk, INPUT);

            assert!(buf.chunk().is_empty());
        }

        #[test]
        #[should_panic]
        fn copy_to_slice_overflow() {
            let mut buf = $make_input(INPUT);

            let mut chunk = [0u8; 65];
            buf.copy_to_slice(&mut chunk);
        }

        #[test]
        fn copy_to_bytes() {
            let mut buf = $make_input(INPUT);

            let chunk = buf.copy_to_bytes(8);
            assert_eq!(buf.remaining(), 64 - 8);
            assert!(buf.has_remaining());
            assert_eq!(chunk, INPUT[..8]);

            let chunk = buf.chunk();
            assert!(chunk.len() <= 64 - 8);
            assert!(INPUT[8..].starts_with(chunk));
        }

        #[test]
        fn copy_to_bytes_big() {
            let mut buf = $make_input(INPUT);

            let chunk = buf.copy_to_bytes(56);
            assert_eq!(buf.remaining(), 64 - 56);
            assert!(buf.has_remaining());
            assert_eq!(chunk, INPUT[..56]);

            let chunk = buf.chunk();
            assert!(chunk.len() <= 64 - 56);
            assert!(INPUT[56..].starts_with(chunk));
        }

        #[test]
        fn copy_to_bytes_to_end() {
            let mut buf = $make_input(INPUT);

            let chunk = buf.copy_to_bytes(64);
            assert_eq!(buf.remaining(), 0);
            assert!(!buf.has_remaining());
            assert_eq!(chunk, INPUT);

            assert!(buf.chunk().is_empty());
        }

        #[test]
        #[should_panic]
        fn copy_to_bytes_overflow() {
            let mut buf = $make_input(INPUT);

            let _ = buf.copy_to_bytes(65);
        }

        buf_tests!(number $make_input, get_u8, get_u8_overflow, u8, get_u8, 0xff);
        buf_tests!(number $make_input, get_i8, get_i8_overflow, i8, get_i8, 0xffu8 as i8);
        buf_tests!(number $make_input, get_u16_be, get_u16_be_overflow, u16, get_u16, 0xff46);
        buf_tests!(number $make_input, get_u16_le, get_u16_le_overflow, u16, get_u16_le, 0x46ff);
        buf_tests!(number $make_input, get_u16_ne, get_u16_ne_overflow, u16, get_u16_ne, e!(0xff46, 0x46ff));
        buf_tests!(number $make_input, get_i16_be, get_i16_be_overflow, i16, get_i16, 0xff46u16 as i16);
        buf_tests!(number $make_input, get_i16_le, get_i16_le_overflow, i16, get_i16_le, 0x46ff);
        buf_tests!(number $make_input, get_i16_ne, get_i16_ne_overflow, i16, get_i16_ne, e!(0xff46u16 as i16, 0x46ff));
        buf_tests!(number $make_input, get_u32_be, get_u32_be_overflow, u32, get_u32, 0xff467172);
        buf_tests!(number $make_input, get_u32_le, get_u32_le_overflow, u32, get_u32_le, 0x727146ff);
        buf_tests!(number $make_input, get_u32_ne, get_u32_ne_overflow, u32, get_u32_ne, e!(0xff467172, 0x727146ff));
        buf_tests!(number $make_input, get_i32_be, get_i32_be_overflow, i32, get_i32, 0xff467172u32 as i32);
        buf_tests!(number $make_input, get_i32_le, get_i32_le_overflow, i32, get_i32_le, 0x727146ff);
        buf_tests!(number $make_input, get_i32_ne, get_i32_ne_overflow, i32, get_i32_ne, e!(0xff467172u32 as i32, 0x727146ff));
        buf_tests!(number $make_input, get_u64_be, get_u64_be_overflow, u64, get_u64, 0xff4671726a724471);
        buf_tests!(number $make_input, get_u64_le, get_u64_le_overflow, u64, get_u64_le, 0x7144726a727146ff);
        buf_tests!(number $make_input, get_u64_ne, get_u64_ne_overflow, u64, get_u64_ne, e!(0xff4671726a724471, 0x7144726a727146ff));
        buf_tests!(number $make_input, get_i64_be, get_i64_be_overflow, i64, get_i64, 0xff4671726a724471u64 as i64);
        buf_tests!(number $make_input, get_i64_le, get_i64_le_overflow, i64, get_i64_le, 0x7144726a727146ff);
        buf_tests!(number $make_input, get_i64_ne, get_i64_ne_overflow, i64, get_i64_ne, e!(0xff4671726a724471u64 as i64, 0x7144726a727146ff));
        buf_tests!(number $make_input, get_u128_be, get_u128_be_overflow, u128, get_u128, 0xff4671726a7244715068765463343576);
        buf_tests!(number $make_input, get_u128_le, get_u128_le_overflow, u128, get_u128_le, 0x76353463547668507144726a727146ff);
        buf_tests!(number $make_input, get_u128_ne, get_u128_ne_overflow, u128, get_u128_ne, e!(0xff4671726a7244715068765463343576, 0x76353463547668507144726a727146ff));
        buf_tests!(number $make_input, get_i128_be, get_i128_be_overflow, i128, get_i128, 0xff4671726a7244715068765463343576u128 as i128);
        buf_tests!(number $make_input, get_i128_le, get_i128_le_overflow, i128, get_i128_le, 0x76353463547668507144726a727146ff);
        buf_tests!(number $make_input, get_i128_ne, get_i128_ne_overflow, i128, get_i128_ne, e!(0xff4671726a7244715068765463343576u128 as i128, 0x76353463547668507144726a727146ff));
        buf_tests!(number $make_input, get_f32_be, get_f32_be_overflow, f32, get_f32, f32::from_bits(0xff467172));
        buf_tests!(number $make_input, get_f32_le, get_f32_le_overflow, f32, get_f32_le, f32::from_bits(0x727146ff));
        buf_tests!(number $make_input, get_f32_ne, get_f32_ne_overflow, f32, get_f32_ne, f32::from_bits(e!(0xff467172, 0x727146ff)));
        buf_tests!(number $make_input, get_f64_be, get_f64_be_overflow, f64, get_f64, f64::from_bits(0xff4671726a724471));
        buf_tests!(number $make_input, get_f64_le, get_f64_le_overflow, f64, get_f64_le, f64::from_bits(0x7144726a727146ff));
        buf_tests!(number $make_input, get_f64_ne, get_f64_ne_overflow, f64, get_f64_ne, f64::from_bits(e!(0xff4671726a724471, 0x7144726a727146ff)));

        buf_tests!(var_number $make_input, get_uint_be, get_uint_be_overflow, u64, get_uint, 3, 0xff4671);
        buf_tests!(var_number $make_input, get_uint_le, get_uint_le_overflow, u64, get_uint_le, 3, 0x7146ff);
        buf_tests!(var_number $make_input, get_uint_ne, get_uint_ne_overflow, u64, get_uint_ne, 3, e!(0xff4671, 0x7146ff));
        buf_tests!(var_number $make_input, get_int_be, get_int_be_overflow, i64, get_int, 3, 0xffffffffffff4671u64 as i64);
        buf_tests!(var_number $make_input, get_int_le, get_int_le_overflow, i64, get_int_le, 3, 0x7146ff);
        buf_tests!(var_number $make_input, get_int_ne, get_int_ne_overflow, i64, get_int_ne, 3, e!(0xffffffffffff4671u64 as i64, 0x7146ff));
    };
    (number $make_input:ident, $ok_name:ident, $panic_name:ident, $number:ty, $method:ident, $value:expr) => {
        #[test]
        fn $ok_name() {
            let mut buf = $make_input(INPUT);

            let value = buf.$method();
            assert_eq!(buf.remaining(), 64 - mem::size_of::<$number>());
            assert!(buf.has_remaining());
            assert_eq!(value, $value);
        }

        #[test]
        #[should_panic]
        fn $panic_name() {
            let mut buf = $make_input(&[]);

            let _ = buf.$method();
        }
    };
    (var_number $make_input:ident, $ok_name:ident, $panic_name:ident, $number:ty, $method:ident, $len:expr, $value:expr) => {
        #[test]
        fn $ok_name() {
            let mut buf = $make_input(INPUT);

            let value = buf.$method($len);
            assert_eq!(buf.remaining(), 64 - $len);
            assert!(buf.has_remaining());
            assert_eq!(value, $value);
        }

        #[test]
        #[should_panic]
        fn $panic_name() {
            let mut buf = $make_input(&[]);

            let _ = buf.$method($len);
        }
    };
}

mod u8_slice {
    fn make_input(buf: &'static [u8]) -> &'static [u8] {
        buf
    }

    buf_tests!(make_input);
}

mod bytes {
    fn make_input(buf: &'static [u8]) -> impl Buf {
        Bytes::from_static(buf)
    }

    buf_tests!(make_input);
}

mod bytes_mut {
    fn make_input(buf: &'static [u8]) -> impl Buf {
        BytesMut::from(buf)
    }

    buf_tests!(make_input);
}

mod vec_deque {
    fn make_input(buf: &'static [u8]) -> impl Buf {
        let mut deque = VecDeque::new();

        if !buf.is_empty() {
            // Construct |b|some bytes|a| `VecDeque`
            let mid = buf.len() / 2;
            let (a, b) = buf.split_at(mid);

            deque.reserve_exact(buf.len() + 1);

            let extra_space = deque.capacity() - b.len() - 1;
            deque.resize(extra_space, 0);

            deque.extend(a);
            deque.drain(..extra_space);
            deque.extend(b);

            let (a, b) = deque.as_slices();
            assert!(
                !a.is_empty(),
                "could not setup test - attempt to create discontiguous VecDeque failed"
            );
            assert!(
                !b.is_empty(),
                "could not setup test - attempt to create discontiguous VecDeque failed"
            );
        }

        deque
    }

    buf_tests!(make_input, true);
}

#[cfg(feature = "std")]
mod cursor {
    use std::io::Cursor;

    fn make_input(buf: &'static [u8]) -> impl Buf {
        Cursor::new(buf)
    }

    buf_tests!(make_input);
}

mod box_bytes {
    fn make_input(buf: &'static [u8]) -> impl Buf {
        Box::new(Bytes::from_static(buf))
    }

    buf_tests!(make_input);
}

mod chain_u8_slice {
    fn make_input(buf: &'static [u8]) -> impl Buf {
        let (a, b) = buf.split_at(buf.len() / 2);
        Buf::chain(a, b)
    }

    buf_tests!(make_input);
}

mod chain_small_big_u8_slice {
    fn make_input(buf: &'static [u8]) -> impl Buf {
        let mid = cmp::min(1, buf.len());
        let (a, b) = buf.split_at(mid);
        Buf::chain(a, b)
    }

    buf_tests!(make_input);
}

mod chain_limited_slices {
    fn make_input(buf: &'static [u8]) -> impl Buf {
        let buf3 = &buf[cmp::min(buf.len(), 3)..];
        let a = Buf::take(buf3, 0);
        let b = Buf::take(buf, 3);
        let c = Buf::take(buf3, usize::MAX);
        let d = buf;
        Buf::take(Buf::chain(Buf::chain(a, b), Buf::chain(c, d)), buf.len())
    }

    buf_tests!(make_input, true);
}

#[allow(unused_allocation)] // This is intentional.
#[test]
fn test_deref_buf_forwards() {
    struct Special;

    impl Buf for Special {
        fn remaining(&self) -> usize {
            unreachable!("remaining");
        }

        fn chunk(&self) -> &[u8] {
            unreachable!("chunk");
        }

        fn advance(&mut self, _: usize) {
            unreachable!("advance");
        }

        fn get_u8(&mut self) -> u8 {
            // specialized!
            b'x'
        }
    }

    // these should all use the specialized method
    assert_eq!(Special.get_u8(), b'x');
    assert_eq!((&mut Special as &mut dyn Buf).get_u8(), b'x');
    assert_eq!((Box::new(Special) as Box<dyn Buf>).get_u8(), b'x');
    assert_eq!(Box::new(Special).get_u8(), b'x');
}

#![warn(rust_2018_idioms)]

use bytes::{Buf, BufMut, Bytes};
#[cfg(feature = "std")]
use std::io::IoSlice;

#[test]
fn collect_two_bufs() {
    let a = Bytes::from(&b"hello"[..]);
    let b = Bytes::from(&b"world"[..]);

    let res = a.chain(b).copy_to_bytes(10);
    assert_eq!(res, &b"helloworld"[..]);
}

#[test]
fn writing_chained() {
    let mut a = [0u8; 64];
    let mut b = [0u8; 64];

    {
        let mut buf = (&mut a[..]).chain_mut(&mut b[..]);

        for i in 0u8..128 {
            buf.put_u8(i);
        }
    }

    for i in 0..64 {
        let expect = i as u8;
        assert_eq!(expect, a[i]);
        assert_eq!(expect + 64, b[i]);
    }
}

#[test]
fn iterating_two_bufs() {
    let a = Bytes::from(&b"hello"[..]);
    let b = Bytes::from(&b"world"[..]);

    let res: Vec<u8> = a.chain(b).into_iter().collect();
    assert_eq!(res, &b"helloworld"[..]);
}

#[cfg(feature = "std")]
#[test]
fn vectored_read() {
    let a = Bytes::from(&b"hello"[..]);
    let b = Bytes::from(&b"world"[..]);

    let mut buf = a.chain(b);

    {
        let b1: &[u8] = &mut [];
        let b2: &[u8] = &mut [];
        let b3: &[u8] = &mut [];
        let b4: &[u8] = &mut [];
        let mut iovecs = [
            IoSlice::new(b1),
            IoSlice::new(b2),
            IoSlice::new(b3),
            IoSlice::new(b4),
        ];

        assert_eq!(2, buf.chunks_vectored(&mut iovecs));
        assert_eq!(iovecs[0][..], b"hello"[..]);
        assert_eq!(iovecs[1][..], b"world"[..]);
        assert_eq!(iovecs[2][..], b""[..]);
        assert_eq!(iovecs[3][..], b""[..]);
    }

    buf.advance(2);

    {
        let b1: &[u8] = &mut [];
        let b2: &[u8] = &mut [];
        let b3: &[u8] = &mut [];
        let b4: &[u8] = &mut [];
        let mut iovecs = [
            IoSlice::new(b1),
            IoSlice::new(b2),
            IoSlice::new(b3),
            IoSlice::new(b4),
        ];

        assert_eq!(2, buf.chunks_vectored(&mut iovecs));
        assert_eq!(iovecs[0][..], b"llo"[..]);
        assert_eq!(iovecs[1][..], b"world"[..]);
        assert_eq!(iovecs[2][..], b""[..]);
        assert_eq!(iovecs[3][..], b""[..]);
    }

    buf.advance(3);

    {
        let b1: &[u8] = &mut [];
        let b2: &[u8] = &mut [];
        let b3: &[u8] = &mut [];
        let b4: &[u8] = &mut [];
        let mut iovecs = [
            IoSlice::new(b1),
            IoSlice::new(b2),
            IoSlice::new(b3),
            IoSlice::new(b4),
        ];

        assert_eq!(1, buf.chunks_vectored(&mut iovecs));
        assert_eq!(iovecs[0][..], b"world"[..]);
        assert_eq!(iovecs[1][..], b""[..]);
        assert_eq!(iovecs[2][..], b""[..]);
        assert_eq!(iovecs[3][..], b""[..]);
    }

    buf.advance(3);

    {
        let b1: &[u8] = &mut [];
        let b2: &[u8] = &mut [];
        let b3: &[u8] = &mut [];
        let b4: &[u8] = &mut [];
        let mut iovecs = [
            IoSlice::new(b1),
            IoSlice::new(b2),
            IoSlice::new(b3),
            IoSlice::new(b4),
        ];

        assert_eq!(1, buf.chunks_vectored(&mut iovecs));
        assert_eq!(iovecs[0][..], b"ld"[..]);
        assert_eq!(iovecs[1][..], b""[..]);
        assert_eq!(iovecs[2][..], b""[..]);
        assert_eq!(iovecs[3][..], b""[..]);
    }
}

#[test]
fn chain_growing_buffer() {
    let mut buff = [b' '; 10];
    let mut vec = b"wassup".to_vec();

    let mut chained = (&mut buff[..]).chain_mut(&mut vec).chain_mut(Vec::new()); // Required for potential overflow because remaining_mut for Vec is isize::MAX - vec.len(), but for chain_mut is usize::MAX

    chained.put_slice(b"hey there123123");

    assert_eq!(&buff, b"hey there1");
    assert_eq!(&vec, b"wassup23123");
}

#[test]
fn chain_overflow_remaining_mut() {
    let mut chained = Vec::<u8>::new().chain_mut(Vec::new()).chain_mut(Vec::new());

    assert_eq!(chained.remaining_mut(), usize::MAX);
    chained.put_slice(&[0; 256]);
    assert_eq!(chained.remaining_mut(), usize::MAX);
}

#[test]
fn chain_get_bytes() {
    let mut ab = Bytes::copy_from_slice(b"ab");
    let mut cd = Bytes::copy_from_slice(b"cd");
    let ab_ptr = ab.as_ptr();
    let cd_ptr = cd.as_ptr();
    let mut chain = (&mut ab).chain(&mut cd);
    let a = chain.copy_to_bytes(1);
    let bc = chain.copy_to_bytes(2);
    let d = chain.copy_to_bytes(1);

    assert_eq!(Bytes::copy_from_slice(b"a"), a);
    assert_eq!(Bytes::copy_from_slice(b"bc"), bc);
    assert_eq!(Bytes::copy_from_slice(b"d"), d);

    // assert `get_bytes` did not allocate
    assert_eq!(ab_ptr, a.as_ptr());
    // assert `get_bytes` did not allocate
    assert_eq!(cd_ptr.wrapping_offset(1), d.as_ptr());
}

#![cfg(not(miri))]
use std::alloc::{GlobalAlloc, Layout, System};
use std::ptr::null_mut;
use std::sync::atomic::{AtomicPtr, AtomicUsize, Ordering};

use bytes::{Buf, Bytes};

#[global_allocator]
static LEDGER: Ledger = Ledger::new();

const LEDGER_LENGTH: usize = 1024 * 1024;

struct Ledger {
    alloc_table: [(AtomicPtr<u8>, AtomicUsize); LEDGER_LENGTH],
}

impl Ledger {
    const fn new() -> Self {
        const ELEM: (AtomicPtr<u8>, AtomicUsize) =
            (AtomicPtr::new(null_mut()), AtomicUsize::new(0));
        let alloc_table = [ELEM; LEDGER_LENGTH];

        Self { alloc_table }
    }

    /// Iterate over our table until we find an open entry, then insert into said entry
    fn insert(&self, ptr: *mut u8, size: usize) {
        for (entry_ptr, entry_size) in self.alloc_table.iter() {
            // SeqCst is good enough here, we don't care about perf, i just want to be correct!
            if entry_ptr
                .compare_exchange(null_mut(), ptr, Ordering::SeqCst, Ordering::SeqCst)
                .is_ok()
            {
                entry_size.store(size, Ordering::SeqCst);
                return;
            }
        }

        panic!("Ledger ran out of space.");
    }

    fn remove(&self, ptr: *mut u8) -> usize {
        for (entry_ptr, entry_size) in self.alloc_table.iter() {
            // set the value to be something that will never try and be deallocated, so that we
            // don't have any chance of a race condition
            //
            // dont worry, LEDGER_LENGTH is really long to compensate for us not reclaiming space
            if entry_ptr
                .compare_exchange(
                    ptr,
                    invalid_ptr(usize::MAX),
                    Ordering::SeqCst,
                    Ordering::SeqCst,
                )
                .is_ok()
            {
                return entry_size.load(Ordering::SeqCst);
            }
        }

        panic!("Couldn't find a matching entry for {:x?}", ptr);
    }
}

unsafe impl GlobalAlloc for Ledger {
    unsafe fn alloc(&self, layout: Layout) -> *mut u8 {
        let size = layout.size();
        let ptr = System.alloc(layout);
        self.insert(ptr, size);
        ptr
    }

    unsafe fn dealloc(&self, ptr: *mut u8, layout: Layout) {
        let orig_size = self.remove(ptr);

        if orig_size != layout.size() {
            panic!(
                "bad dealloc: alloc size was {}, dealloc size is {}",
                orig_size,
                layout.size()
            );
        } else {
            System.dealloc(ptr, layout);
        }
    }
}

#[test]
fn test_bytes_advance() {
    let mut bytes = Bytes::from(vec![10, 20, 30]);
    bytes.advance(1);
    drop(bytes);
}

#[test]
fn test_bytes_truncate() {
    let mut bytes = Bytes::from(vec![10, 20, 30]);
    bytes.truncate(2);
    drop(bytes);
}

#[test]
fn test_bytes_truncate_and_advance() {
    let mut bytes = Bytes::from(vec![10, 20, 30]);
    bytes.truncate(2);
    bytes.advance(1);
    drop(bytes);
}

/// Returns a dangling pointer with the given address. This is used to store
/// integer data in pointer fields.
#[inline]
fn invalid_ptr<T>(addr: usize) -> *mut T {
    let ptr = std::ptr::null_mut::<u8>().wrapping_add(addr);
    debug_assert_eq!(ptr as usize, addr);
    ptr.cast::<T>()
}

#[test]
fn test_bytes_into_vec() {
    let vec = vec![33u8; 1024];

    // Test cases where kind == KIND_VEC
    let b1 = Bytes::from(vec.clone());
    assert_eq!(Vec::from(b1), vec);

    // Test cases where kind == KIND_ARC, ref_cnt == 1
    let b1 = Bytes::from(vec.clone());
    drop(b1.clone());
    assert_eq!(Vec::from(b1), vec);

    // Test cases where kind == KIND_ARC, ref_cnt == 2
    let b1 = Bytes::from(vec.clone());
    let b2 = b1.clone();
    assert_eq!(Vec::from(b1), vec);

    // Test cases where vtable = SHARED_VTABLE, kind == KIND_ARC, ref_cnt == 1
    assert_eq!(Vec::from(b2), vec);

    // Test cases where offset != 0
    let mut b1 = Bytes::from(vec.clone());
    let b2 = b1.split_off(20);

    assert_eq!(Vec::from(b2), vec[20..]);
    assert_eq!(Vec::from(b1), vec[..20]);
}

#![warn(rust_2018_idioms)]

use bytes::{buf::IntoIter, Bytes};

#[test]
fn iter_len() {
    let buf = Bytes::from_static(b"hello world");
    let iter = IntoIter::new(buf);

    assert_eq!(iter.size_hint(), (11, Some(11)));
    assert_eq!(iter.len(), 11);
}

#[test]
fn empty_iter_len() {
    let buf = Bytes::new();
    let iter = IntoIter::new(buf);

    assert_eq!(iter.size_hint(), (0, Some(0)));
    assert_eq!(iter.len(), 0);
}

//! Test using `Bytes` with an allocator that hands out "odd" pointers for
//! vectors (pointers where the LSB is set).

#![cfg(not(miri))] // Miri does not support custom allocators (also, Miri is "odd" by default with 50% chance)

use std::alloc::{GlobalAlloc, Layout, System};
use std::ptr;

use bytes::{Bytes, BytesMut};

#[global_allocator]
static ODD: Odd = Odd;

struct Odd;

unsafe impl GlobalAlloc for Odd {
    unsafe fn alloc(&self, layout: Layout) -> *mut u8 {
        if layout.align() == 1 && layout.size() > 0 {
            // Allocate slightly bigger so that we can offset the pointer by 1
            let size = layout.size() + 1;
            let new_layout = match Layout::from_size_align(size, 1) {
                Ok(layout) => layout,
                Err(_err) => return ptr::null_mut(),
            };
            let ptr = System.alloc(new_layout);
            if !ptr.is_null() {
                ptr.offset(1)
            } else {
                ptr
            }
        } else {
            System.alloc(layout)
        }
    }

    unsafe fn dealloc(&self, ptr: *mut u8, layout: Layout) {
        if layout.align() == 1 && layout.size() > 0 {
            let size = layout.size() + 1;
            let new_layout = match Layout::from_size_align(size, 1) {
                Ok(layout) => layout,
                Err(_err) => std::process::abort(),
            };
            System.dealloc(ptr.offset(-1), new_layout);
        } else {
            System.dealloc(ptr, layout);
        }
    }
}

#[test]
fn sanity_check_odd_allocator() {
    let vec = vec![33u8; 1024];
    let p = vec.as_ptr() as usize;
    assert!(p & 0x1 == 0x1, "{:#b}", p);
}

#[test]
fn test_bytes_from_vec_drop() {
    let vec = vec![33u8; 1024];
    let _b = Bytes::from(vec);
}

#[test]
fn test_bytes_clone_drop() {
    let vec = vec![33u8; 1024];
    let b1 = Bytes::from(vec);
    let _b2 = b1.clone();
}

#[test]
fn test_bytes_into_vec() {
    let vec = vec![33u8; 1024];

    // Test cases where kind == KIND_VEC
    let b1 = Bytes::from(vec.clone());
    assert_eq!(Vec::from(b1), vec);

    // Test cases where kind == KIND_ARC, ref_cnt == 1
    let b1 = Bytes::from(vec.clone());
    drop(b1.clone());
    assert_eq!(Vec::from(b1), vec);

    // Test cases where kind == KIND_ARC, ref_cnt == 2
    let b1 = Bytes::from(vec.clone());
    let b2 = b1.clone();
    assert_eq!(Vec::from(b1), vec);

    // Test cases where vtable = SHARED_VTABLE, kind == KIND_ARC, ref_cnt == 1
    assert_eq!(Vec::from(b2), vec);

    // Test cases where offset != 0
    let mut b1 = Bytes::from(vec.clone());
    let b2 = b1.split_off(20);

    assert_eq!(Vec::from(b2), vec[20..]);
    assert_eq!(Vec::from(b1), vec[..20]);
}

#[test]
fn test_bytesmut_from_bytes_vec() {
    let vec = vec![33u8; 1024];

    // Test case where kind == KIND_VEC
    let b1 = Bytes::from(vec.clone());
    let b1m = BytesMut::from(b1);
    assert_eq!(b1m, vec);
}

#[test]
fn test_bytesmut_from_bytes_arc_1() {
    let vec = vec![33u8; 1024];

    // Test case where kind == KIND_ARC, ref_cnt == 1
    let b1 = Bytes::from(vec.clone());
    drop(b1.clone());
    let b1m = BytesMut::from(b1);
    assert_eq!(b1m, vec);
}

#[test]
fn test_bytesmut_from_bytes_arc_2() {
    let vec = vec![33u8; 1024];

    // Test case where kind == KIND_ARC, ref_cnt == 2
    let b1 = Bytes::from(vec.clone());
    let b2 = b1.clone();
    let b1m = BytesMut::from(b1);
    assert_eq!(b1m, vec);

    // Test case where vtable = SHARED_VTABLE, kind == KIND_ARC, ref_cnt == 1
    let b2m = BytesMut::from(b2);
    assert_eq!(b2m, vec);
}

#[test]
fn test_bytesmut_from_bytes_arc_offset() {
    let vec = vec![33u8; 1024];

    // Test case where offset != 0
    let mut b1 = Bytes::from(vec.clone());
    let b2 = b1.split_off(20);
    let b1m = BytesMut::from(b1);
    let b2m = BytesMut::from(b2);

    assert_eq!(b2m, vec[20..]);
    assert_eq!(b1m, vec[..20]);
}

use core::fmt::{Debug, Formatter, Result};

use super::BytesRef;
use crate::{Bytes, BytesMut};

/// Alternative implementation of `std::fmt::Debug` for byte slice.
///
/// Standard `Debug` implementation for `[u8]` is comma separated
/// list of numbers. Since large amount of byte strings are in fact
/// ASCII strings or contain a lot of ASCII strings (e. g. HTTP),
/// it is convenient to print strings as ASCII when possible.
impl Debug for BytesRef<'_> {
    fn fmt(&self, f: &mut Formatter<'_>) -> Result {
        write!(f, "b\"")?;
        for &b in self.0 {
            // https://doc.rust-lang.org/reference/tokens.html#byte-escapes
            if b == b'\n' {
                write!(f, "\\n")?;
            } else if b == b'\r' {
                write!(f, "\\r")?;
            } else if b == b'\t' {
                write!(f, "\\t")?;
            } else if b == b'\\' || b == b'"' {
                write!(f, "\\{}", b as char)?;
            } else if b == b'\0' {
                write!(f, "\\0")?;
            // ASCII printable
            } else if (0x20..0x7f).contains(&b) {
                write!(f, "{}", b as char)?;
            } else {
                write!(f, "\\x{:02x}", b)?;
            }
        }
        write!(f, "\"")?;
        Ok(())
    }
}

fmt_impl!(Debug, Bytes);
fmt_impl!(Debug, BytesMut);

macro_rules! fmt_impl {
    ($tr:ident, $ty:ty) => {
        impl $tr for $ty {
            fn fmt(&self, f: &mut Formatter<'_>) -> Result {
                $tr::fmt(&BytesRef(self.as_ref()), f)
            }
        }
    };
}

mod debug;
mod hex;

/// `BytesRef` is not a part of public API of bytes crate.
struct BytesRef<'a>(&'a [u8]);

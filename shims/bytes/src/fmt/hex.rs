use core::fmt::{Formatter, LowerHex, Result, UpperHex};

use super::BytesRef;
use crate::{Bytes, BytesMut};

impl LowerHex for BytesRef<'_> {
    fn fmt(&self, f: &mut Formatter<'_>) -> Result {
        for &b in self.0 {
            write!(f, "{:02x}", b)?;
        }
        Ok(())
    }
}

impl UpperHex for BytesRef<'_> {
    fn fmt(&self, f: &mut Formatter<'_>) -> Result {
        for &b in self.0 {
            write!(f, "{:02X}", b)?;
        }
        Ok(())
    }
}

fmt_impl!(LowerHex, Bytes);
fmt_impl!(LowerHex, BytesMut);
fmt_impl!(UpperHex, Bytes);
fmt_impl!(UpperHex, BytesMut);

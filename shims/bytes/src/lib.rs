#![warn(missing_docs, missing_debug_implementations, rust_2018_idioms)]
#![doc(test(
    no_crate_inject,
    attr(deny(warnings, rust_2018_idioms), allow(dead_code, unused_variables))
))]
#![no_std]
#![cfg_attr(docsrs, feature(doc_cfg))]

//! Provides abstractions for working with bytes.
//!
//! The `bytes` crate provides an efficient byte buffer structure
//! ([`Bytes`]) and traits for working with buffer
//! implementations ([`Buf`], [`BufMut`]).
//!
//! # `Bytes`
//!
//! `Bytes` is an efficient container for storing and operating on contiguous
//! slices of memory. It is intended for use primarily in networking code, but
//! could have applications elsewhere as well.
//!
//! `Bytes` values facilitate zero-copy network programming by allowing multiple
//! `Bytes` objects to point to the same underlying memory. This is managed by
//! using a reference count to track when the memory is no longer needed and can
//! be freed.
//!
//! A `Bytes` handle can be created directly from an existing byte store (such as `&[u8]`
//! or `Vec<u8>`), but usually a `BytesMut` is used first and written to. For
//! example:
//!
//! ```rust
//! use bytes::{BytesMut, BufMut};
//!
//! let mut buf = BytesMut::with_capacity(1024);
//! buf.put(&b"hello world"[..]);
//! buf.put_u16(1234);
//!
//! let a = buf.split();
//! assert_eq!(a, b"hello world\x04\xD2"[..]);
//!
//! buf.put(&b"goodbye world"[..]);
//!
//! let b = buf.split();
//! assert_eq!(b, b"goodbye world"[..]);
//!
//! assert_eq!(buf.capacity(), 998);
//! ```
//!
//! In the above example, only a single buffer of 1024 is allocated. The handles
//! `a` and `b` will share the underlying buffer and maintain indices tracking
//! the view into the buffer represented by the handle.
//!
//! See the [struct docs](`Bytes`) for more details.
//!
//! # `Buf`, `BufMut`
//!
//! These two traits provide read and write access to buffers. The underlying
//! storage may or may not be in contiguous memory. For example, `Bytes` is a
//! buffer that guarantees contiguous memory, but a [rope] stores the bytes in
//! disjoint chunks. `Buf` and `BufMut` maintain cursors tracking the current
//! position in the underlying byte storage. When bytes are read or written, the
//! cursor is advanced.
//!
//! [rope]: https://en.wikipedia.org/wiki/Rope_(data_structure)
//!
//! ## Relation with `Read` and `Write`
//!
//! At first glance, it may seem that `Buf` and `BufMut` overlap in
//! functionality with [`std::io::Read`] and [`std::io::Write`]. However, they
//! serve different purposes. A buffer is the value that is provided as an
//! argument to `Read::read` and `Write::write`. `Read` and `Write` may then
//! perform a syscall, which has the potential of failing. Operations on `Buf`
//! and `BufMut` are infallible.

extern crate alloc;

#[cfg(feature = "std")]
extern crate std;

pub mod buf;
pub use crate::buf::{Buf, BufMut};

mod bytes;
mod bytes_mut;
mod fmt;
mod loom;
pub use crate::bytes::Bytes;
pub use crate::bytes_mut::BytesMut;

// Optional Serde support
#[cfg(feature = "serde")]
mod serde;

#[inline(never)]
#[cold]
fn abort() -> ! {
    #[cfg(feature = "std")]
    {
        std::process::abort();
    }

    #[cfg(not(feature = "std"))]
    {
        struct Abort;
        impl Drop for Abort {
            fn drop(&mut self) {
                panic!();
            }
        }
        let _a = Abort;
        panic!("abort");
    }
}

#[inline(always)]
#[cfg(feature = "std")]
fn saturating_sub_usize_u64(a: usize, b: u64) -> usize {
    match usize::try_from(b) {
        Ok(b) => a.saturating_sub(b),
        Err(_) => 0,
    }
}

#[inline(always)]
#[cfg(feature = "std")]
fn min_u64_usize(a: u64, b: usize) -> usize {
    match usize::try_from(a) {
        Ok(a) => usize::min(a, b),
        Err(_) => b,
    }
}

/// Error type for the `try_get_` methods of [`Buf`].
/// Indicates that there were not enough remaining
/// bytes in the buffer while attempting
/// to get a value from a [`Buf`] with one
/// of the `try_get_` methods.
#[derive(Debug, PartialEq, Eq)]
pub struct TryGetError {
    /// The number of bytes necessary to get the value
    pub requested: usize,

    /// The number of bytes available in the buffer
    pub available: usize,
}

impl core::fmt::Display for TryGetError {
    fn fmt(&self, f: &mut core::fmt::Formatter<'_>) -> Result<(), core::fmt::Error> {
        write!(
            f,
            "Not enough bytes remaining in buffer to read value (requested {} but only {} available)",
            self.requested,
            self.available
        )
    }
}

#[cfg(feature = "std")]
impl std::error::Error for TryGetError {}

#[cfg(feature = "std")]
impl From<TryGetError> for std::io::Error {
    fn from(error: TryGetError) -> Self {
        std::io::Error::new(std::io::ErrorKind::Other, error)
    }
}

/// Panic with a nice error message.
#[cold]
fn panic_advance(error_info: &TryGetError) -> ! {
    panic!(
        "advance out of bounds: the len is {} but advancing by {}",
        error_info.available, error_info.requested
    );
}

#[cold]
fn panic_does_not_fit(size: usize, nbytes: usize) -> ! {
    panic!(
        "size too large: the integer type can fit {} bytes, but nbytes is {}",
        size, nbytes
    );
}

// Verification model of `bytes::BytesMut`: a Vec<u8> plus a read offset.
use core::mem::MaybeUninit;
use core::ops::{Deref, DerefMut};
use core::{cmp, fmt, hash};

use alloc::{
    borrow::{Borrow, BorrowMut},
    string::String,
    vec::Vec,
};

use crate::buf::{IntoIter, UninitSlice};
use crate::{Buf, BufMut, Bytes, TryGetError};

/// Model of `bytes::BytesMut`. Logical content is `v[off..]`.
pub struct BytesMut {
    v: Vec<u8>,
    off: usize,
}

impl BytesMut {
    /// with_capacity
    #[inline]
    pub fn with_capacity(capacity: usize) -> BytesMut {
        BytesMut {
            v: Vec::with_capacity(capacity),
            off: 0,
        }
    }

    /// new
    #[inline]
    pub fn new() -> BytesMut {
        BytesMut {
            v: Vec::new(),
            off: 0,
        }
    }

    /// len
    #[inline]
    pub fn len(&self) -> usize {
        self.v.len() - self.off
    }

    /// is_empty
    #[inline]
    pub fn is_empty(&self) -> bool {
        self.len() == 0
    }

    /// capacity
    #[inline]
    pub fn capacity(&self) -> usize {
        self.v.capacity() - self.off
    }

    /// freeze
    #[inline]
    pub fn freeze(self) -> Bytes {
        if self.off == 0 {
            Bytes::from(self.v)
        } else {
            Bytes::copy_from_slice(&self.v[self.off..])
        }
    }

    /// from_vec (crate-private in the real crate)
    #[inline]
    pub(crate) fn from_vec(vec: Vec<u8>) -> BytesMut {
        BytesMut { v: vec, off: 0 }
    }

    /// zeroed
    pub fn zeroed(len: usize) -> BytesMut {
        BytesMut {
            v: alloc::vec![0; len],
            off: 0,
        }
    }

    /// split_off
    #[must_use = "consider BytesMut::truncate if you don't need the other half"]
    pub fn split_off(&mut self, at: usize) -> BytesMut {
        assert!(
            at <= self.capacity(),
            "split_off out of bounds: {:?} <= {:?}",
            at,
            self.capacity(),
        );
        let at = cmp::min(at, self.len());
        let tail = self.v[self.off + at..].to_vec();
        self.v.truncate(self.off + at);
        BytesMut { v: tail, off: 0 }
    }

    /// split
    #[must_use = "consider BytesMut::clear if you don't need the other half"]
    pub fn split(&mut self) -> BytesMut {
        let len = self.len();
        self.split_to(len)
    }

    /// split_to
    #[must_use = "consider BytesMut::advance if you don't need the other half"]
    pub fn split_to(&mut self, at: usize) -> BytesMut {
        assert!(
            at <= self.len(),
            "split_to out of bounds: {:?} <= {:?}",
            at,
            self.len(),
        );
        if self.off == 0 && at == self.v.len() {
            // Splitting off everything: hand over the buffer itself instead of copying it.  Same
            // observable result; it keeps already-written constant bytes (packet type, length
            // prefixes) visible to CBMC's constant propagation, which a memcpy would hide.
            let v = core::mem::take(&mut self.v);
            return BytesMut { v, off: 0 };
        }
        let head = self.v[self.off..self.off + at].to_vec();
        self.off += at;
        BytesMut { v: head, off: 0 }
    }

    /// truncate
    pub fn truncate(&mut self, len: usize) {
        if len <= self.len() {
            self.v.truncate(self.off + len);
        }
    }

    /// clear
    pub fn clear(&mut self) {
        self.v.truncate(self.off);
    }

    /// resize
    pub fn resize(&mut self, new_len: usize, value: u8) {
        self.v.resize(self.off + new_len, value);
    }

    /// set_len
    #[inline]
    pub unsafe fn set_len(&mut self, len: usize) {
        debug_assert!(len <= self.capacity(), "set_len out of bounds");
        self.v.set_len(self.off + len);
    }

    /// reserve
    #[inline]
    pub fn reserve(&mut self, additional: usize) {
        self.v.reserve(additional);
    }

    /// try_reclaim
    #[inline]
    #[must_use = "consider BytesMut::reserve if you need an infallible reservation"]
    pub fn try_reclaim(&mut self, additional: usize) -> bool {
        self.capacity() - self.len() >= additional
    }

    /// extend_from_slice
    #[inline]
    pub fn extend_from_slice(&mut self, extend: &[u8]) {
        // element-wise (no memcpy), see put_u8
        let mut i = 0;
        while i < extend.len() {
            self.v.push(extend[i]);
            i += 1;
        }
    }

    /// unsplit
    pub fn unsplit(&mut self, other: BytesMut) {
        self.v.extend_from_slice(other.as_slice());
    }

    /// spare_capacity_mut
    #[inline]
    pub fn spare_capacity_mut(&mut self) -> &mut [MaybeUninit<u8>] {
        self.v.spare_capacity_mut()
    }

    #[inline]
    fn as_slice(&self) -> &[u8] {
        &self.v[self.off..]
    }

    #[inline]
    fn as_slice_mut(&mut self) -> &mut [u8] {
        let off = self.off;
        &mut self.v[off..]
    }
}

impl Buf for BytesMut {
    #[inline]
    fn remaining(&self) -> usize {
        self.len()
    }

    #[inline]
    fn chunk(&self) -> &[u8] {
        self.as_slice()
    }

    #[inline]
    fn advance(&mut self, cnt: usize) {
        assert!(
            cnt <= self.remaining(),
            "cannot advance past `remaining`: {:?} <= {:?}",
            cnt,
            self.remaining(),
        );
        self.off += cnt;
    }

    fn copy_to_bytes(&mut self, len: usize) -> Bytes {
        self.split_to(len).freeze()
    }

    #[inline]
    fn get_u8(&mut self) -> u8 {
        if self.len() < 1 {
            crate::panic_advance(&TryGetError { requested: 1, available: 0 });
        }
        let r = self.v[self.off];
        self.off += 1;
        r
    }

    #[inline]
    fn get_u16(&mut self) -> u16 {
        let avail = self.len();
        if avail < 2 {
            crate::panic_advance(&TryGetError { requested: 2, available: avail });
        }
        let r = ((self.v[self.off] as u16) << 8) | (self.v[self.off + 1] as u16);
        self.off += 2;
        r
    }

    #[inline]
    fn get_u32(&mut self) -> u32 {
        let avail = self.len();
        if avail < 4 {
            crate::panic_advance(&TryGetError { requested: 4, available: avail });
        }
        let o = self.off;
        let r = ((self.v[o] as u32) << 24) | ((self.v[o + 1] as u32) << 16) | ((self.v[o + 2] as u32) << 8) | (self.v[o + 3] as u32);
        self.off += 4;
        r
    }
}

unsafe impl BufMut for BytesMut {
    #[inline]
    fn remaining_mut(&self) -> usize {
        isize::MAX as usize - self.len()
    }

    #[inline]
    unsafe fn advance_mut(&mut self, cnt: usize) {
        let remaining = self.capacity() - self.len();
        if cnt > remaining {
            super::panic_advance(&TryGetError {
                requested: cnt,
                available: remaining,
            });
        }
        let l = self.v.len();
        self.v.set_len(l + cnt);
    }

    #[inline]
    fn chunk_mut(&mut self) -> &mut UninitSlice {
        if self.capacity() == self.len() {
            self.reserve(64);
        }
        self.spare_capacity_mut().into()
    }

    fn put<T: Buf>(&mut self, mut src: T)
    where
        Self: Sized,
    {
        while src.has_remaining() {
            let s = src.chunk();
            let l = s.len();
            self.extend_from_slice(s);
            src.advance(l);
        }
    }

    fn put_slice(&mut self, src: &[u8]) {
        self.extend_from_slice(src);
    }

    // element-wise stores (no memcpy): constant bytes stay constant for CBMC
    #[inline]
    fn put_u8(&mut self, n: u8) {
        self.v.push(n);
    }

    #[inline]
    fn put_u16(&mut self, n: u16) {
        self.v.push((n >> 8) as u8);
        self.v.push(n as u8);
    }

    #[inline]
    fn put_u32(&mut self, n: u32) {
        self.v.push((n >> 24) as u8);
        self.v.push((n >> 16) as u8);
        self.v.push((n >> 8) as u8);
        self.v.push(n as u8);
    }

    fn put_bytes(&mut self, val: u8, cnt: usize) {
        let l = self.v.len();
        self.v.resize(l + cnt, val);
    }
}

impl AsRef<[u8]> for BytesMut {
    #[inline]
    fn as_ref(&self) -> &[u8] {
        self.as_slice()
    }
}

impl Deref for BytesMut {
    type Target = [u8];

    #[inline]
    fn deref(&self) -> &[u8] {
        self.as_ref()
    }
}

impl AsMut<[u8]> for BytesMut {
    #[inline]
    fn as_mut(&mut self) -> &mut [u8] {
        self.as_slice_mut()
    }
}

impl DerefMut for BytesMut {
    #[inline]
    fn deref_mut(&mut self) -> &mut [u8] {
        self.as_mut()
    }
}

impl<'a> From<&'a [u8]> for BytesMut {
    fn from(src: &'a [u8]) -> BytesMut {
        BytesMut {
            v: src.to_vec(),
            off: 0,
        }
    }
}

impl<'a> From<&'a str> for BytesMut {
    fn from(src: &'a str) -> BytesMut {
        BytesMut::from(src.as_bytes())
    }
}

impl From<BytesMut> for Bytes {
    fn from(src: BytesMut) -> Bytes {
        src.freeze()
    }
}

impl PartialEq for BytesMut {
    fn eq(&self, other: &BytesMut) -> bool {
        self.as_slice() == other.as_slice()
    }
}

impl PartialOrd for BytesMut {
    fn partial_cmp(&self, other: &BytesMut) -> Option<cmp::Ordering> {
        Some(self.cmp(other))
    }
}

impl Ord for BytesMut {
    fn cmp(&self, other: &BytesMut) -> cmp::Ordering {
        self.as_slice().cmp(other.as_slice())
    }
}

impl Eq for BytesMut {}

impl Default for BytesMut {
    #[inline]
    fn default() -> BytesMut {
        BytesMut::new()
    }
}

impl hash::Hash for BytesMut {
    fn hash<H>(&self, state: &mut H)
    where
        H: hash::Hasher,
    {
        let s: &[u8] = self.as_ref();
        s.hash(state);
    }
}

impl Borrow<[u8]> for BytesMut {
    fn borrow(&self) -> &[u8] {
        self.as_ref()
    }
}

impl BorrowMut<[u8]> for BytesMut {
    fn borrow_mut(&mut self) -> &mut [u8] {
        self.as_mut()
    }
}

impl fmt::Write for BytesMut {
    #[inline]
    fn write_str(&mut self, s: &str) -> fmt::Result {
        if self.remaining_mut() >= s.len() {
            self.put_slice(s.as_bytes());
            Ok(())
        } else {
            Err(fmt::Error)
        }
    }

    #[inline]
    fn write_fmt(&mut self, args: fmt::Arguments<'_>) -> fmt::Result {
        fmt::write(self, args)
    }
}

impl Clone for BytesMut {
    fn clone(&self) -> BytesMut {
        BytesMut::from(&self[..])
    }
}

impl IntoIterator for BytesMut {
    type Item = u8;
    type IntoIter = IntoIter<BytesMut>;

    fn into_iter(self) -> Self::IntoIter {
        IntoIter::new(self)
    }
}

impl<'a> IntoIterator for &'a BytesMut {
    type Item = &'a u8;
    type IntoIter = core::slice::Iter<'a, u8>;

    fn into_iter(self) -> Self::IntoIter {
        self.as_ref().iter()
    }
}

impl Extend<u8> for BytesMut {
    fn extend<T>(&mut self, iter: T)
    where
        T: IntoIterator<Item = u8>,
    {
        for b in iter {
            self.v.push(b);
        }
    }
}

impl<'a> Extend<&'a u8> for BytesMut {
    fn extend<T>(&mut self, iter: T)
    where
        T: IntoIterator<Item = &'a u8>,
    {
        self.extend(iter.into_iter().copied())
    }
}

impl Extend<Bytes> for BytesMut {
    fn extend<T>(&mut self, iter: T)
    where
        T: IntoIterator<Item = Bytes>,
    {
        for bytes in iter {
            self.extend_from_slice(&bytes)
        }
    }
}

impl FromIterator<u8> for BytesMut {
    fn from_iter<T: IntoIterator<Item = u8>>(into_iter: T) -> Self {
        BytesMut {
            v: Vec::from_iter(into_iter),
            off: 0,
        }
    }
}

impl<'a> FromIterator<&'a u8> for BytesMut {
    fn from_iter<T: IntoIterator<Item = &'a u8>>(into_iter: T) -> Self {
        BytesMut::from_iter(into_iter.into_iter().copied())
    }
}

impl PartialEq<[u8]> for BytesMut {
    fn eq(&self, other: &[u8]) -> bool {
        &**self == other
    }
}

impl PartialOrd<[u8]> for BytesMut {
    fn partial_cmp(&self, other: &[u8]) -> Option<cmp::Ordering> {
        (**self).partial_cmp(other)
    }
}

impl PartialEq<BytesMut> for [u8] {
    fn eq(&self, other: &BytesMut) -> bool {
        *other == *self
    }
}

impl PartialOrd<BytesMut> for [u8] {
    fn partial_cmp(&self, other: &BytesMut) -> Option<cmp::Ordering> {
        <[u8] as PartialOrd<[u8]>>::partial_cmp(self, other)
    }
}

impl PartialEq<str> for BytesMut {
    fn eq(&self, other: &str) -> bool {
        &**self == other.as_bytes()
    }
}

impl PartialOrd<str> for BytesMut {
    fn partial_cmp(&self, other: &str) -> Option<cmp::Ordering> {
        (**self).partial_cmp(other.as_bytes())
    }
}

impl PartialEq<BytesMut> for str {
    fn eq(&self, other: &BytesMut) -> bool {
        *other == *self
    }
}

impl PartialOrd<BytesMut> for str {
    fn partial_cmp(&self, other: &BytesMut) -> Option<cmp::Ordering> {
        <[u8] as PartialOrd<[u8]>>::partial_cmp(self.as_bytes(), other)
    }
}

impl PartialEq<Vec<u8>> for BytesMut {
    fn eq(&self, other: &Vec<u8>) -> bool {
        *self == other[..]
    }
}

impl PartialOrd<Vec<u8>> for BytesMut {
    fn partial_cmp(&self, other: &Vec<u8>) -> Option<cmp::Ordering> {
        (**self).partial_cmp(&other[..])
    }
}

impl PartialEq<BytesMut> for Vec<u8> {
    fn eq(&self, other: &BytesMut) -> bool {
        *other == *self
    }
}

impl PartialOrd<BytesMut> for Vec<u8> {
    fn partial_cmp(&self, other: &BytesMut) -> Option<cmp::Ordering> {
        other.partial_cmp(self)
    }
}

impl PartialEq<String> for BytesMut {
    fn eq(&self, other: &String) -> bool {
        *self == other[..]
    }
}

impl PartialOrd<String> for BytesMut {
    fn partial_cmp(&self, other: &String) -> Option<cmp::Ordering> {
        (**self).partial_cmp(other.as_bytes())
    }
}

impl PartialEq<BytesMut> for String {
    fn eq(&self, other: &BytesMut) -> bool {
        *other == *self
    }
}

impl PartialOrd<BytesMut> for String {
    fn partial_cmp(&self, other: &BytesMut) -> Option<cmp::Ordering> {
        <[u8] as PartialOrd<[u8]>>::partial_cmp(self.as_bytes(), other)
    }
}

impl<'a, T: ?Sized> PartialEq<&'a T> for BytesMut
where
    BytesMut: PartialEq<T>,
{
    fn eq(&self, other: &&'a T) -> bool {
        *self == **other
    }
}

impl<'a, T: ?Sized> PartialOrd<&'a T> for BytesMut
where
    BytesMut: PartialOrd<T>,
{
    fn partial_cmp(&self, other: &&'a T) -> Option<cmp::Ordering> {
        self.partial_cmp(*other)
    }
}

impl PartialEq<BytesMut> for &[u8] {
    fn eq(&self, other: &BytesMut) -> bool {
        *other == *self
    }
}

impl PartialOrd<BytesMut> for &[u8] {
    fn partial_cmp(&self, other: &BytesMut) -> Option<cmp::Ordering> {
        <[u8] as PartialOrd<[u8]>>::partial_cmp(self, other)
    }
}

impl PartialEq<BytesMut> for &str {
    fn eq(&self, other: &BytesMut) -> bool {
        *other == *self
    }
}

impl PartialOrd<BytesMut> for &str {
    fn partial_cmp(&self, other: &BytesMut) -> Option<cmp::Ordering> {
        other.partial_cmp(self)
    }
}

impl PartialEq<BytesMut> for Bytes {
    fn eq(&self, other: &BytesMut) -> bool {
        other[..] == self[..]
    }
}

impl PartialEq<Bytes> for BytesMut {
    fn eq(&self, other: &Bytes) -> bool {
        other[..] == self[..]
    }
}

impl From<BytesMut> for Vec<u8> {
    fn from(bytes: BytesMut) -> Self {
        bytes.as_slice().to_vec()
    }
}

// Verification model of `bytes::Bytes`: a plain value type.
// No pointer tagging, no vtables, no sharing: clone/split/slice copy.
use core::ops::{Deref, RangeBounds};
use core::{cmp, hash};

use alloc::{borrow::Borrow, boxed::Box, string::String, vec::Vec};

use crate::buf::IntoIter;
use crate::{Buf, BytesMut};

enum Repr {
    Static(&'static [u8]),
    Owned(Vec<u8>),
}

/// Model of `bytes::Bytes`. Logical content is `repr[off..]`.
pub struct Bytes {
    repr: Repr,
    off: usize,
}

impl Bytes {
    /// empty
    #[inline]
    pub const fn new() -> Self {
        Bytes {
            repr: Repr::Static(&[]),
            off: 0,
        }
    }

    /// from static
    #[inline]
    pub const fn from_static(bytes: &'static [u8]) -> Self {
        Bytes {
            repr: Repr::Static(bytes),
            off: 0,
        }
    }

    /// from owner (copies)
    pub fn from_owner<T>(owner: T) -> Self
    where
        T: AsRef<[u8]> + Send + 'static,
    {
        Bytes::copy_from_slice(owner.as_ref())
    }

    #[inline]
    fn full(&self) -> &[u8] {
        match &self.repr {
            Repr::Static(s) => s,
            Repr::Owned(v) => v.as_slice(),
        }
    }

    #[inline]
    fn as_slice(&self) -> &[u8] {
        &self.full()[self.off..]
    }

    /// len
    #[inline]
    pub fn len(&self) -> usize {
        self.full().len() - self.off
    }

    /// is_empty
    #[inline]
    pub fn is_empty(&self) -> bool {
        self.len() == 0
    }

    /// model: always unique (no sharing)
    pub fn is_unique(&self) -> bool {
        matches!(self.repr, Repr::Owned(_))
    }

    /// copy
    pub fn copy_from_slice(data: &[u8]) -> Self {
        Bytes {
            repr: Repr::Owned(data.to_vec()),
            off: 0,
        }
    }

    /// slice
    pub fn slice(&self, range: impl RangeBounds<usize>) -> Self {
        use core::ops::Bound;
        let len = self.len();
        let begin = match range.start_bound() {
            Bound::Included(&n) => n,
            Bound::Excluded(&n) => n.checked_add(1).expect("out of range"),
            Bound::Unbounded => 0,
        };
        let end = match range.end_bound() {
            Bound::Included(&n) => n.checked_add(1).expect("out of range"),
            Bound::Excluded(&n) => n,
            Bound::Unbounded => len,
        };
        assert!(
            begin <= end,
            "range start must not be greater than end: {:?} <= {:?}",
            begin,
            end,
        );
        assert!(
            end <= len,
            "range end out of bounds: {:?} <= {:?}",
            end,
            len,
        );
        if end == begin {
            return Bytes::new();
        }
        Bytes::copy_from_slice(&self.as_slice()[begin..end])
    }

    /// slice_ref
    pub fn slice_ref(&self, subset: &[u8]) -> Self {
        if subset.is_empty() {
            return Bytes::new();
        }
        let bytes_p = self.as_slice().as_ptr() as usize;
        let bytes_len = self.len();
        let sub_p = subset.as_ptr() as usize;
        let sub_len = subset.len();
        assert!(
            sub_p >= bytes_p,
            "subset pointer ({:p}) is smaller than self pointer ({:p})",
            subset.as_ptr(),
            self.as_slice().as_ptr(),
        );
        assert!(
            sub_p + sub_len <= bytes_p + bytes_len,
            "subset is out of bounds: self = ({:p}, {}), subset = ({:p}, {})",
            self.as_slice().as_ptr(),
            bytes_len,
            subset.as_ptr(),
            sub_len,
        );
        let sub_offset = sub_p - bytes_p;
        self.slice(sub_offset..(sub_offset + sub_len))
    }

    /// split_off
    #[must_use = "consider Bytes::truncate if you don't need the other half"]
    pub fn split_off(&mut self, at: usize) -> Self {
        assert!(
            at <= self.len(),
            "split_off out of bounds: {:?} <= {:?}",
            at,
            self.len(),
        );
        let tail = Bytes::copy_from_slice(&self.as_slice()[at..]);
        self.truncate(at);
        tail
    }

    /// split_to
    #[must_use = "consider Bytes::advance if you don't need the other half"]
    pub fn split_to(&mut self, at: usize) -> Self {
        assert!(
            at <= self.len(),
            "split_to out of bounds: {:?} <= {:?}",
            at,
            self.len(),
        );
        let head = Bytes::copy_from_slice(&self.as_slice()[..at]);
        self.off += at;
        head
    }

    /// truncate
    #[inline]
    pub fn truncate(&mut self, len: usize) {
        if len < self.len() {
            let new_full = self.off + len;
            match &mut self.repr {
                Repr::Static(s) => *s = &s[..new_full],
                Repr::Owned(v) => v.truncate(new_full),
            }
        }
    }

    /// clear
    #[inline]
    pub fn clear(&mut self) {
        self.truncate(0);
    }

    /// try_into_mut: model always succeeds for owned data
    pub fn try_into_mut(self) -> Result<BytesMut, Bytes> {
        if self.is_unique() {
            Ok(BytesMut::from(self.as_slice()))
        } else {
            Err(self)
        }
    }
}

impl Clone for Bytes {
    #[inline]
    fn clone(&self) -> Bytes {
        match &self.repr {
            Repr::Static(s) => Bytes {
                repr: Repr::Static(s),
                off: self.off,
            },
            Repr::Owned(_) => Bytes::copy_from_slice(self.as_slice()),
        }
    }
}

impl Buf for Bytes {
    #[inline]
    fn remaining(&self) -> usize {
        self.len()
    }

    #[inline]
    fn chunk(&self) -> &[u8] {
        self.as_slice()
    }

    #[inline]
    fn advance(&mut self, cnt: usize) {
        assert!(
            cnt <= self.len(),
            "cannot advance past `remaining`: {:?} <= {:?}",
            cnt,
            self.len(),
        );
        self.off += cnt;
    }

    fn copy_to_bytes(&mut self, len: usize) -> Self {
        self.split_to(len)
    }

    // Direct element reads instead of the default "memcpy into a local array" path: same
    // results and panics, but CBMC keeps constant bytes constant across an indexed load.
    #[inline]
    fn get_u8(&mut self) -> u8 {
        if self.len() < 1 {
            crate::panic_advance(&crate::TryGetError { requested: 1, available: 0 });
        }
        let s = self.as_slice();
        let r = s[0];
        self.off += 1;
        r
    }

    #[inline]
    fn get_u16(&mut self) -> u16 {
        let avail = self.len();
        if avail < 2 {
            crate::panic_advance(&crate::TryGetError { requested: 2, available: avail });
        }
        let s = self.as_slice();
        let r = ((s[0] as u16) << 8) | (s[1] as u16);
        self.off += 2;
        r
    }

    #[inline]
    fn get_u32(&mut self) -> u32 {
        let avail = self.len();
        if avail < 4 {
            crate::panic_advance(&crate::TryGetError { requested: 4, available: avail });
        }
        let s = self.as_slice();
        let r = ((s[0] as u32) << 24) | ((s[1] as u32) << 16) | ((s[2] as u32) << 8) | (s[3] as u32);
        self.off += 4;
        r
    }
}

impl Deref for Bytes {
    type Target = [u8];

    #[inline]
    fn deref(&self) -> &[u8] {
        self.as_slice()
    }
}

impl AsRef<[u8]> for Bytes {
    #[inline]
    fn as_ref(&self) -> &[u8] {
        self.as_slice()
    }
}

impl hash::Hash for Bytes {
    fn hash<H>(&self, state: &mut H)
    where
        H: hash::Hasher,
    {
        self.as_slice().hash(state);
    }
}

impl Borrow<[u8]> for Bytes {
    fn borrow(&self) -> &[u8] {
        self.as_slice()
    }
}

impl IntoIterator for Bytes {
    type Item = u8;
    type IntoIter = IntoIter<Bytes>;

    fn into_iter(self) -> Self::IntoIter {
        IntoIter::new(self)
    }
}

impl<'a> IntoIterator for &'a Bytes {
    type Item = &'a u8;
    type IntoIter = core::slice::Iter<'a, u8>;

    fn into_iter(self) -> Self::IntoIter {
        self.as_slice().iter()
    }
}

impl FromIterator<u8> for Bytes {
    fn from_iter<T: IntoIterator<Item = u8>>(into_iter: T) -> Self {
        Vec::from_iter(into_iter).into()
    }
}

impl PartialEq for Bytes {
    fn eq(&self, other: &Bytes) -> bool {
        self.as_slice() == other.as_slice()
    }
}

impl PartialOrd for Bytes {
    fn partial_cmp(&self, other: &Bytes) -> Option<cmp::Ordering> {
        Some(self.cmp(other))
    }
}

impl Ord for Bytes {
    fn cmp(&self, other: &Bytes) -> cmp::Ordering {
        self.as_slice().cmp(other.as_slice())
    }
}

impl Eq for Bytes {}

impl PartialEq<[u8]> for Bytes {
    fn eq(&self, other: &[u8]) -> bool {
        self.as_slice() == other
    }
}

impl PartialOrd<[u8]> for Bytes {
    fn partial_cmp(&self, other: &[u8]) -> Option<cmp::Ordering> {
        self.as_slice().partial_cmp(other)
    }
}

impl PartialEq<Bytes> for [u8] {
    fn eq(&self, other: &Bytes) -> bool {
        *other == *self
    }
}

impl PartialOrd<Bytes> for [u8] {
    fn partial_cmp(&self, other: &Bytes) -> Option<cmp::Ordering> {
        <[u8] as PartialOrd<[u8]>>::partial_cmp(self, other)
    }
}

impl PartialEq<str> for Bytes {
    fn eq(&self, other: &str) -> bool {
        self.as_slice() == other.as_bytes()
    }
}

impl PartialOrd<str> for Bytes {
    fn partial_cmp(&self, other: &str) -> Option<cmp::Ordering> {
        self.as_slice().partial_cmp(other.as_bytes())
    }
}

impl PartialEq<Bytes> for str {
    fn eq(&self, other: &Bytes) -> bool {
        *other == *self
    }
}

impl PartialOrd<Bytes> for str {
    fn partial_cmp(&self, other: &Bytes) -> Option<cmp::Ordering> {
        <[u8] as PartialOrd<[u8]>>::partial_cmp(self.as_bytes(), other)
    }
}

impl PartialEq<Vec<u8>> for Bytes {
    fn eq(&self, other: &Vec<u8>) -> bool {
        *self == other[..]
    }
}

impl PartialOrd<Vec<u8>> for Bytes {
    fn partial_cmp(&self, other: &Vec<u8>) -> Option<cmp::Ordering> {
        self.as_slice().partial_cmp(&other[..])
    }
}

impl PartialEq<Bytes> for Vec<u8> {
    fn eq(&self, other: &Bytes) -> bool {
        *other == *self
    }
}

impl PartialOrd<Bytes> for Vec<u8> {
    fn partial_cmp(&self, other: &Bytes) -> Option<cmp::Ordering> {
        <[u8] as PartialOrd<[u8]>>::partial_cmp(self, other)
    }
}

impl PartialEq<String> for Bytes {
    fn eq(&self, other: &String) -> bool {
        *self == other[..]
    }
}

impl PartialOrd<String> for Bytes {
    fn partial_cmp(&self, other: &String) -> Option<cmp::Ordering> {
        self.as_slice().partial_cmp(other.as_bytes())
    }
}

impl PartialEq<Bytes> for String {
    fn eq(&self, other: &Bytes) -> bool {
        *other == *self
    }
}

impl PartialOrd<Bytes> for String {
    fn partial_cmp(&self, other: &Bytes) -> Option<cmp::Ordering> {
        <[u8] as PartialOrd<[u8]>>::partial_cmp(self.as_bytes(), other)
    }
}

impl PartialEq<Bytes> for &[u8] {
    fn eq(&self, other: &Bytes) -> bool {
        *other == *self
    }
}

impl PartialOrd<Bytes> for &[u8] {
    fn partial_cmp(&self, other: &Bytes) -> Option<cmp::Ordering> {
        <[u8] as PartialOrd<[u8]>>::partial_cmp(self, other)
    }
}

impl PartialEq<Bytes> for &str {
    fn eq(&self, other: &Bytes) -> bool {
        *other == *self
    }
}

impl PartialOrd<Bytes> for &str {
    fn partial_cmp(&self, other: &Bytes) -> Option<cmp::Ordering> {
        <[u8] as PartialOrd<[u8]>>::partial_cmp(self.as_bytes(), other)
    }
}

impl<'a, T: ?Sized> PartialEq<&'a T> for Bytes
where
    Bytes: PartialEq<T>,
{
    fn eq(&self, other: &&'a T) -> bool {
        *self == **other
    }
}

impl<'a, T: ?Sized> PartialOrd<&'a T> for Bytes
where
    Bytes: PartialOrd<T>,
{
    fn partial_cmp(&self, other: &&'a T) -> Option<cmp::Ordering> {
        self.partial_cmp(&**other)
    }
}

impl Default for Bytes {
    #[inline]
    fn default() -> Bytes {
        Bytes::new()
    }
}

impl From<&'static [u8]> for Bytes {
    fn from(slice: &'static [u8]) -> Bytes {
        Bytes::from_static(slice)
    }
}

impl From<&'static str> for Bytes {
    fn from(slice: &'static str) -> Bytes {
        Bytes::from_static(slice.as_bytes())
    }
}

impl From<Vec<u8>> for Bytes {
    fn from(vec: Vec<u8>) -> Bytes {
        Bytes {
            repr: Repr::Owned(vec),
            off: 0,
        }
    }
}

impl From<Box<[u8]>> for Bytes {
    fn from(slice: Box<[u8]>) -> Bytes {
        Bytes::from(slice.into_vec())
    }
}

impl From<Bytes> for BytesMut {
    fn from(bytes: Bytes) -> Self {
        BytesMut::from(bytes.as_slice())
    }
}

impl From<String> for Bytes {
    fn from(s: String) -> Bytes {
        Bytes::from(s.into_bytes())
    }
}

impl From<Bytes> for Vec<u8> {
    fn from(bytes: Bytes) -> Vec<u8> {
        bytes.as_slice().to_vec()
    }
}


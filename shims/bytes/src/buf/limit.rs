use crate::buf::UninitSlice;
use crate::BufMut;

use core::cmp;

/// A `BufMut` adapter which limits the amount of bytes that can be written
/// to an underlying buffer.
#[derive(Debug)]
pub struct Limit<T> {
    inner: T,
    limit: usize,
}

pub(super) fn new<T>(inner: T, limit: usize) -> Limit<T> {
    Limit { inner, limit }
}

impl<T> Limit<T> {
    /// Consumes this `Limit`, returning the underlying value.
    pub fn into_inner(self) -> T {
        self.inner
    }

    /// Gets a reference to the underlying `BufMut`.
    ///
    /// It is inadvisable to directly write to the underlying `BufMut`.
    pub fn get_ref(&self) -> &T {
        &self.inner
    }

    /// Gets a mutable reference to the underlying `BufMut`.
    ///
    /// It is inadvisable to directly write to the underlying `BufMut`.
    pub fn get_mut(&mut self) -> &mut T {
        &mut self.inner
    }

    /// Returns the maximum number of bytes that can be written
    ///
    /// # Note
    ///
    /// If the inner `BufMut` has fewer bytes than indicated by this method then
    /// that is the actual number of available bytes.
    pub fn limit(&self) -> usize {
        self.limit
    }

    /// Sets the maximum number of bytes that can be written.
    ///
    /// # Note
    ///
    /// If the inner `BufMut` has fewer bytes than `lim` then that is the actual
    /// number of available bytes.
    pub fn set_limit(&mut self, lim: usize) {
        self.limit = lim
    }
}

unsafe impl<T: BufMut> BufMut for Limit<T> {
    fn remaining_mut(&self) -> usize {
        cmp::min(self.inner.remaining_mut(), self.limit)
    }

    fn chunk_mut(&mut self) -> &mut UninitSlice {
        let bytes = self.inner.chunk_mut();
        let end = cmp::min(bytes.len(), self.limit);
        &mut bytes[..end]
    }

    unsafe fn advance_mut(&mut self, cnt: usize) {
        assert!(cnt <= self.limit);
        self.inner.advance_mut(cnt);
        self.limit -= cnt;
    }
}

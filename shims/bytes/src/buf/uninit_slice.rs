use core::fmt;
use core::mem::MaybeUninit;
use core::ops::{
    Index, IndexMut, Range, RangeFrom, RangeFull, RangeInclusive, RangeTo, RangeToInclusive,
};

/// Uninitialized byte slice.
///
/// Returned by `BufMut::chunk_mut()`, the referenced byte slice may be
/// uninitialized. The wrapper provides safe access without introducing
/// undefined behavior.
///
/// The safety invariants of this wrapper are:
///
///  1. Reading from an `UninitSlice` is undefined behavior.
///  2. Writing uninitialized bytes to an `UninitSlice` is undefined behavior.
///
/// The difference between `&mut UninitSlice` and `&mut [MaybeUninit<u8>]` is
/// that it is possible in safe code to write uninitialized bytes to an
/// `&mut [MaybeUninit<u8>]`, which this type prohibits.
#[repr(transparent)]
pub struct UninitSlice([MaybeUninit<u8>]);

impl UninitSlice {
    /// Creates a `&mut UninitSlice` wrapping a slice of initialised memory.
    ///
    /// # Examples
    ///
    /// ```
    /// use bytes::buf::UninitSlice;
    ///
    /// let mut buffer = [0u8; 64];
    /// let slice = UninitSlice::new(&mut buffer[..]);
    /// ```
    #[inline]
    pub fn new(slice: &mut [u8]) -> &mut UninitSlice {
        unsafe { &mut *(slice as *mut [u8] as *mut [MaybeUninit<u8>] as *mut UninitSlice) }
    }

    /// Creates a `&mut UninitSlice` wrapping a slice of uninitialised memory.
    ///
    /// # Examples
    ///
    /// ```
    /// use bytes::buf::UninitSlice;
    /// use core::mem::MaybeUninit;
    ///
    /// let mut buffer = [MaybeUninit::uninit(); 64];
    /// let slice = UninitSlice::uninit(&mut buffer[..]);
    ///
    /// let mut vec = Vec::with_capacity(1024);
    /// let spare: &mut UninitSlice = vec.spare_capacity_mut().into();
    /// ```
    #[inline]
    pub fn uninit(slice: &mut [MaybeUninit<u8>]) -> &mut UninitSlice {
        unsafe { &mut *(slice as *mut [MaybeUninit<u8>] as *mut UninitSlice) }
    }

    fn uninit_ref(slice: &[MaybeUninit<u8>]) -> &UninitSlice {
        unsafe { &*(slice as *const [MaybeUninit<u8>] as *const UninitSlice) }
    }

    /// Create a `&mut UninitSlice` from a pointer and a length.
    ///
    /// # Safety
    ///
    /// The caller must ensure that `ptr` references a valid memory region owned
    /// by the caller representing a byte slice for the duration of `'a`.
    ///
    /// # Examples
    ///
    /// ```
    /// use bytes::buf::UninitSlice;
    ///
    /// let bytes = b"hello world".to_vec();
    /// let ptr = bytes.as_ptr() as *mut _;
    /// let len = bytes.len();
    ///
    /// let slice = unsafe { UninitSlice::from_raw_parts_mut(ptr, len) };
    /// ```
    #[inline]
    pub unsafe fn from_raw_parts_mut<'a>(ptr: *mut u8, len: usize) -> &'a mut UninitSlice {
        let maybe_init: &mut [MaybeUninit<u8>] =
            core::slice::from_raw_parts_mut(ptr as *mut _, len);
        Self::uninit(maybe_init)
    }

    /// Write a single byte at the specified offset.
    ///
    /// # Panics
    ///
    /// The function panics if `index` is out of bounds.
    ///
    /// # Examples
    ///
    /// ```
    /// use bytes::buf::UninitSlice;
    ///
    /// let mut data = [b'f', b'o', b'o'];
    /// let slice = unsafe { UninitSlice::from_raw_parts_mut(data.as_mut_ptr(), 3) };
    ///
    /// slice.write_byte(0, b'b');
    ///
    /// assert_eq!(b"boo", &data[..]);
    /// ```
    #[inline]
    pub fn write_byte(&mut self, index: usize, byte: u8) {
        assert!(index < self.len());

        unsafe { self[index..].as_mut_ptr().write(byte) }
    }

    /// Copies bytes from `src` into `self`.
    ///
    /// The length of `src` must be the same as `self`.
    ///
    /// # Panics
    ///
    /// The function panics if `src` has a different length than `self`.
    ///
    /// # Examples
    ///
    /// ```
    /// use bytes::buf::UninitSlice;
    ///
    /// let mut data = [b'f', b'o', b'o'];
    /// let slice = unsafe { UninitSlice::from_raw_parts_mut(data.as_mut_ptr(), 3) };
    ///
    /// slice.copy_from_slice(b"bar");
    ///
    /// assert_eq!(b"bar", &data[..]);
    /// ```
    #[inline]
    pub fn copy_from_slice(&mut self, src: &[u8]) {
        use core::ptr;

        assert_eq!(self.len(), src.len());

        unsafe {
            ptr::copy_nonoverlapping(src.as_ptr(), self.as_mut_ptr(), self.len());
        }
    }

    /// Return a raw pointer to the slice's buffer.
    ///
    /// # Safety
    ///
    /// The caller **must not** read from the referenced memory and **must not**
    /// write **uninitialized** bytes to the slice either.
    ///
    /// # Examples
    ///
    /// ```
    /// use bytes::BufMut;
    ///
    /// let mut data = [0, 1, 2];
    /// let mut slice = &mut data[..];
    /// let ptr = BufMut::chunk_mut(&mut slice).as_mut_ptr();
    /// ```
    #[inline]
    pub fn as_mut_ptr(&mut self) -> *mut u8 {
        self.0.as_mut_ptr() as *mut _
    }

    /// Return a `&mut [MaybeUninit<u8>]` to this slice's buffer.
    ///
    /// # Safety
    ///
    /// The caller **must not** read from the referenced memory and **must not** write
    /// **uninitialized** bytes to the slice either. This is because `BufMut` implementation
    /// that created the `UninitSlice` knows which parts are initialized. Writing uninitialized
    /// bytes to the slice may cause the `BufMut` to read those bytes and trigger undefined
    /// behavior.
    ///
    /// # Examples
    ///
    /// ```
    /// use bytes::BufMut;
    ///
    /// let mut data = [0, 1, 2];
    /// let mut slice = &mut data[..];
    /// unsafe {
    ///     let uninit_slice = BufMut::chunk_mut(&mut slice).as_uninit_slice_mut();
    /// };
    /// ```
    #[inline]
    pub unsafe fn as_uninit_slice_mut(&mut self) -> &mut [MaybeUninit<u8>] {
        &mut self.0
    }

    /// Returns the number of bytes in the slice.
    ///
    /// # Examples
    ///
    /// ```
    /// use bytes::BufMut;
    ///
    /// let mut data = [0, 1, 2];
    /// let mut slice = &mut data[..];
    /// let len = BufMut::chunk_mut(&mut slice).len();
    ///
    /// assert_eq!(len, 3);
    /// ```
    #[inline]
    pub fn len(&self) -> usize {
        self.0.len()
    }
}

impl fmt::Debug for UninitSlice {
    fn fmt(&self, fmt: &mut fmt::Formatter<'_>) -> fmt::Result {
        fmt.debug_struct("UninitSlice[...]").finish()
    }
}

impl<'a> From<&'a mut [u8]> for &'a mut UninitSlice {
    fn from(slice: &'a mut [u8]) -> Self {
        UninitSlice::new(slice)
    }
}

impl<'a> From<&'a mut [MaybeUninit<u8>]> for &'a mut UninitSlice {
    fn from(slice: &'a mut [MaybeUninit<u8>]) -> Self {
        UninitSlice::uninit(slice)
    }
}

macro_rules! impl_index {
    ($($t:ty),*) => {
        $(
            impl Index<$t> for UninitSlice {
                type Output = UninitSlice;

                #[inline]
                fn index(&self, index: $t) -> &UninitSlice {
                    UninitSlice::uninit_ref(&self.0[index])
                }
            }

            impl IndexMut<$t> for UninitSlice {
                #[inline]
                fn index_mut(&mut self, index: $t) -> &mut UninitSlice {
                    UninitSlice::uninit(&mut self.0[index])
                }
            }
        )*
    };
}

impl_index!(
    Range<usize>,
    RangeFrom<usize>,
    RangeFull,
    RangeInclusive<usize>,
    RangeTo<usize>,
    RangeToInclusive<usize>
);

use alloc::collections::VecDeque;
#[cfg(feature = "std")]
use std::io;

use super::Buf;

impl Buf for VecDeque<u8> {
    fn remaining(&self) -> usize {
        self.len()
    }

    fn chunk(&self) -> &[u8] {
        let (s1, s2) = self.as_slices();
        if s1.is_empty() {
            s2
        } else {
            s1
        }
    }

    #[cfg(feature = "std")]
    fn chunks_vectored<'a>(&'a self, dst: &mut [io::IoSlice<'a>]) -> usize {
        if self.is_empty() || dst.is_empty() {
            return 0;
        }

        let (s1, s2) = self.as_slices();
        dst[0] = io::IoSlice::new(s1);
        if s2.is_empty() || dst.len() == 1 {
            return 1;
        }

        dst[1] = io::IoSlice::new(s2);
        2
    }

    fn advance(&mut self, cnt: usize) {
        self.drain(..cnt);
    }
}

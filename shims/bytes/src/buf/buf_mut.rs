use crate::buf::{limit, Chain, Limit, UninitSlice};
#[cfg(feature = "std")]
use crate::buf::{writer, Writer};
use crate::{panic_advance, panic_does_not_fit, TryGetError};

use core::{mem, ptr};

use alloc::{boxed::Box, vec::Vec};

/// A trait for values that provide sequential write access to bytes.
///
/// Write bytes to a buffer
///
/// A buffer stores bytes in memory such that write operations are infallible.
/// The underlying storage may or may not be in contiguous memory. A `BufMut`
/// value is a cursor into the buffer. Writing to `BufMut` advances the cursor
/// position.
///
/// The simplest `BufMut` is a `Vec<u8>`.
///
/// ```
/// use bytes::BufMut;
///
/// let mut buf = vec![];
///
/// buf.put(&b"hello world"[..]);
///
/// assert_eq!(buf, b"hello world");
/// ```
pub unsafe trait BufMut {
    /// Returns the number of bytes that can be written from the current
    /// position until the end of the buffer is reached.
    ///
    /// This value is greater than or equal to the length of the slice returned
    /// by `chunk_mut()`.
    ///
    /// Writing to a `BufMut` may involve allocating more memory on the fly.
    /// Implementations may fail before reaching the number of bytes indicated
    /// by this method if they encounter an allocation failure.
    ///
    /// # Examples
    ///
    /// ```
    /// use bytes::BufMut;
    ///
    /// let mut dst = [0; 10];
    /// let mut buf = &mut dst[..];
    ///
    /// let original_remaining = buf.remaining_mut();
    /// buf.put(&b"hello"[..]);
    ///
    /// assert_eq!(original_remaining - 5, buf.remaining_mut());
    /// ```
    ///
    /// # Implementer notes
    ///
    /// Implementations of `remaining_mut` should ensure that the return value
    /// does not change unless a call is made to `advance_mut` or any other
    /// function that is documented to change the `BufMut`'s current position.
    ///
    /// # Note
    ///
    /// `remaining_mut` may return value smaller than actual available space.
    fn remaining_mut(&self) -> usize;

    /// Advance the internal cursor of the BufMut
    ///
    /// The next call to `chunk_mut` will return a slice starting `cnt` bytes
    /// further into the underlying buffer.
    ///
    /// # Safety
    ///
    /// The caller must ensure that the next `cnt` bytes of `chunk` are
    /// initialized.
    ///
    /// # Examples
    ///
    /// ```
    /// use bytes::BufMut;
    ///
    /// let mut buf = Vec::with_capacity(16);
    ///
    /// // Write some data
    /// buf.chunk_mut()[0..2].copy_from_slice(b"he");
    /// unsafe { buf.advance_mut(2) };
    ///
    /// // write more bytes
    /// buf.chunk_mut()[0..3].copy_from_slice(b"llo");
    ///
    /// unsafe { buf.advance_mut(3); }
    ///
    /// assert_eq!(5, buf.len());
    /// assert_eq!(buf, b"hello");
    /// ```
    ///
    /// # Panics
    ///
    /// This function **may** panic if `cnt > self.remaining_mut()`.
    ///
    /// # Implementer notes
    ///
    /// It is recommended for implementations of `advance_mut` to panic if
    /// `cnt > self.remaining_mut()`. If the implementation does not panic,
    /// the call must behave as if `cnt == self.remaining_mut()`.
    ///
    /// A call with `cnt == 0` should never panic and be a no-op.
    unsafe fn advance_mut(&mut self, cnt: usize);

    /// Returns true if there is space in `self` for more bytes.
    ///
    /// This is equivalent to `self.remaining_mut() != 0`.
    ///
    /// # Examples
    ///
    /// ```
    /// use bytes::BufMut;
    ///
    /// let mut dst = [0; 5];
    /// let mut buf = &mut dst[..];
    ///
    /// assert!(buf.has_remaining_mut());
    ///
    /// buf.put(&b"hello"[..]);
    ///
    /// assert!(!buf.has_remaining_mut());
    /// ```
    #[inline]
    fn has_remaining_mut(&self) -> bool {
        self.remaining_mut() > 0
    }

    /// Returns a mutable slice starting at the current BufMut position and of
    /// length between 0 and `BufMut::remaining_mut()`. Note that this *can* be shorter than the
    /// whole remainder of the buffer (this allows non-continuous implementation).
    ///
    /// This is a lower level function. Most operations are done with other
    /// functions.
    ///
    /// The returned byte slice may represent uninitialized memory.
    ///
    /// # Examples
    ///
    /// ```
    /// use bytes::BufMut;
    ///
    /// let mut buf = Vec::with_capacity(16);
    ///
    /// unsafe {
    ///     // MaybeUninit::as_mut_ptr
    ///     buf.chunk_mut()[0..].as_mut_ptr().write(b'h');
    ///     buf.chunk_mut()[1..].as_mut_ptr().write(b'e');
    ///
    ///     buf.advance_mut(2);
    ///
    ///     buf.chunk_mut()[0..].as_mut_ptr().write(b'l');
    ///     buf.chunk_mut()[1..].as_mut_ptr().write(b'l');
    ///     buf.chunk_mut()[2..].as_mut_ptr().write(b'o');
    ///
    ///     buf.advance_mut(3);
    /// }
    ///
    /// assert_eq!(5, buf.len());
    /// assert_eq!(buf, b"hello");
    /// ```
    ///
    /// # Implementer notes
    ///
    /// This function should never panic. `chunk_mut()` should return an empty
    /// slice **if and only if** `remaining_mut()` returns 0. In other words,
    /// `chunk_mut()` returning an empty slice implies that `remaining_mut()` will
    /// return 0 and `remaining_mut()` returning 0 implies that `chunk_mut()` will
    /// return an empty slice.
    ///
    /// This function may trigger an out-of-memory abort if it tries to allocate
    /// memory and fails to do so.
    // The `chunk_mut` method was previously called `bytes_mut`. This alias makes the
    // rename more easily discoverable.
    #[cfg_attr(docsrs, doc(alias = "bytes_mut"))]
    fn chunk_mut(&mut self) -> &mut UninitSlice;

    /// Transfer bytes into `self` from `src` and advance the cursor by the
    /// number of bytes written.
    ///
    /// # Examples
    ///
    /// ```
    /// use bytes::BufMut;
    ///
    /// let mut buf = vec![];
    ///
    /// buf.put_u8(b'h');
    /// buf.put(&b"ello"[..]);
    /// buf.put(&b" world"[..]);
    ///
    /// assert_eq!(buf, b"hello world");
    /// ```
    ///
    /// # Panics
    ///
    /// Panics if `self` does not have enough capacity to contain `src`.
    #[inline]
    fn put<T: super::Buf>(&mut self, mut src: T)
    where
        Self: Sized,
    {
        if self.remaining_mut() < src.remaining() {
            panic_advance(&TryGetError {
                requested: src.remaining(),
                available: self.remaining_mut(),
            });
        }

        while src.has_remaining() {
            let s = src.chunk();
            let d = self.chunk_mut();
            let cnt = usize::min(s.len(), d.len());

            d[..cnt].copy_from_slice(&s[..cnt]);

            // SAFETY: We just initialized `cnt` bytes in `self`.
            unsafe { self.advance_mut(cnt) };
            src.advance(cnt);
        }
    }

    /// Transfer bytes into `self` from `src` and advance the cursor by the
    /// number of bytes written.
    ///
    /// `self` must have enough remaining capacity to contain all of `src`.
    ///
    /// ```
    /// use bytes::BufMut;
    ///
    /// let mut dst = [0; 6];
    ///
    /// {
    ///     let mut buf = &mut dst[..];
    ///     buf.put_slice(b"hello");
    ///
    ///     assert_eq!(1, buf.remaining_mut());
    /// }
    ///
    /// assert_eq!(b"hello\0", &dst);
    /// ```
    #[inline]
    fn put_slice(&mut self, mut src: &[u8]) {
        if self.remaining_mut() < src.len() {
            panic_advance(&TryGetError {
                requested: src.len(),
                available: self.remaining_mut(),
            });
        }

        while !src.is_empty() {
            let dst = self.chunk_mut();
            let cnt = usize::min(src.len(), dst.len());

            dst[..cnt].copy_from_slice(&src[..cnt]);
            src = &src[cnt..];

            // SAFETY: We just initialized `cnt` bytes in `self`.
            unsafe { self.advance_mut(cnt) };
        }
    }

    /// Put `cnt` bytes `val` into `self`.
    ///
    /// Logically equivalent to calling `self.put_u8(val)` `cnt` times, but may work faster.
    ///
    /// `self` must have at least `cnt` remaining capacity.
    ///
    /// ```
    /// use bytes::BufMut;
    ///
    /// let mut dst = [0; 6];
    ///
    /// {
    ///     let mut buf = &mut dst[..];
    ///     buf.put_bytes(b'a', 4);
    ///
    ///     assert_eq!(2, buf.remaining_mut());
    /// }
    ///
    /// assert_eq!(b"aaaa\0\0", &dst);
    /// ```
    ///
    /// # Panics
    ///
    /// This function panics if there is not enough remaining capacity in
    /// `self`.
    #[inline]
    fn put_bytes(&mut self, val: u8, mut cnt: usize) {
        if self.remaining_mut() < cnt {
            panic_advance(&TryGetError {
                requested: cnt,
                available: self.remaining_mut(),
            })
        }

        while cnt > 0 {
            let dst = self.chunk_mut();
            let dst_len = usize::min(dst.len(), cnt);
            // SAFETY: The pointer is valid for `dst_len <= dst.len()` bytes.
            unsafe { core::ptr::write_bytes(dst.as_mut_ptr(), val, dst_len) };
            // SAFETY: We just initialized `dst_len` bytes in `self`.
            unsafe { self.advance_mut(dst_len) };
            cnt -= dst_len;
        }
    }

    /// Writes an unsigned 8 bit integer to `self`.
    ///
    /// The current position is advanced by 1.
    ///
    /// # Examples
    ///
    /// ```
    /// use bytes::BufMut;
    ///
    /// let mut buf = vec![];
    /// buf.put_u8(0x01);
    /// assert_eq!(buf, b"\x01");
    /// ```
    ///
    /// # Panics
    ///
    /// This function panics if there is not enough remaining capacity in
    /// `self`.
    #[inline]
    fn put_u8(&mut self, n: u8) {
        let src = [n];
        self.put_slice(&src);
    }

    /// Writes a signed 8 bit integer to `self`.
    ///
    /// The current position is advanced by 1.
    ///
    /// # Examples
    ///
    /// ```
    /// use bytes::BufMut;
    ///
    /// let mut buf = vec![];
    /// buf.put_i8(0x01);
    /// assert_eq!(buf, b"\x01");
    /// ```
    ///
    /// # Panics
    ///
    /// This function panics if there is not enough remaining capacity in
    /// `self`.
    #[inline]
    fn put_i8(&mut self, n: i8) {
        let src = [n as u8];
        self.put_slice(&src)
    }

    /// Writes an unsigned 16 bit integer to `self` in big-endian byte order.
    ///
    /// The current position is advanced by 2.
    ///
    /// # Examples
    ///
    /// ```
    /// use bytes::BufMut;
    ///
    /// let mut buf = vec![];
    /// buf.put_u16(0x0809);
    /// assert_eq!(buf, b"\x08\x09");
    /// ```
    ///
    /// # Panics
    ///
    /// This function panics if there is not enough remaining capacity in
    /// `self`.
    #[inline]
    fn put_u16(&mut self, n: u16) {
        self.put_slice(&n.to_be_bytes())
    }

    /// Writes an unsigned 16 bit integer to `self` in little-endian byte order.
    ///
    /// The current position is advanced by 2.
    ///
    /// # Examples
    ///
    /// ```
    /// use bytes::BufMut;
    ///
    /// let mut buf = vec![];
    /// buf.put_u16_le(0x0809);
    /// assert_eq!(buf, b"\x09\x08");
    /// ```
    ///
    /// # Panics
    ///
    /// This function panics if there is not enough remaining capacity in
    /// `self`.
    #[inline]
    fn put_u16_le(&mut self, n: u16) {
        self.put_slice(&n.to_le_bytes())
    }

    /// Writes an unsigned 16 bit integer to `self` in native-endian byte order.
    ///
    /// The current position is advanced by 2.
    ///
    /// # Examples
    ///
    /// ```
    /// use bytes::BufMut;
    ///
    /// let mut buf = vec![];
    /// buf.put_u16_ne(0x0809);
    /// if cfg!(target_endian = "big") {
    ///     assert_eq!(buf, b"\x08\x09");
    /// } else {
    ///     assert_eq!(buf, b"\x09\x08");
    /// }
    /// ```
    ///
    /// # Panics
    ///
    /// This function panics if there is not enough remaining capacity in
    /// `self`.
    #[inline]
    fn put_u16_ne(&mut self, n: u16) {
        self.put_slice(&n.to_ne_bytes())
    }

    /// Writes a signed 16 bit integer to `self` in big-endian byte order.
    ///
    /// The current position is advanced by 2.
    ///
    /// # Examples
    ///
    /// ```
    /// use bytes::BufMut;
    ///
    /// let mut buf = vec![];
    /// buf.put_i16(0x0809);
    /// assert_eq!(buf, b"\x08\x09");
    /// ```
    ///
    /// # Panics
    ///
    /// This function panics if there is not enough remaining capacity in
    /// `self`.
    #[inline]
    fn put_i16(&mut self, n: i16) {
        self.put_slice(&n.to_be_bytes())
    }

    /// Writes a signed 16 bit integer to `self` in little-endian byte order.
    ///
    /// The current position is advanced by 2.
    ///
    /// # Examples
    ///
    /// ```
    /// use bytes::BufMut;
    ///
    /// let mut buf = vec![];
    /// buf.put_i16_le(0x0809);
    /// assert_eq!(buf, b"\x09\x08");
    /// ```
    ///
    /// # Panics
    ///
    /// This function panics if there is not enough remaining capacity in
    /// `self`.
    #[inline]
    fn put_i16_le(&mut self, n: i16) {
        self.put_slice(&n.to_le_bytes())
    }

    /// Writes a signed 16 bit integer to `self` in native-endian byte order.
    ///
    /// The current position is advanced by 2.
    ///
    /// # Examples
    ///
    /// ```
    /// use bytes::BufMut;
    ///
    /// let mut buf = vec![];
    /// buf.put_i16_ne(0x0809);
    /// if cfg!(target_endian = "big") {
    ///     assert_eq!(buf, b"\x08\x09");
    /// } else {
    ///     assert_eq!(buf, b"\x09\x08");
    /// }
    /// ```
    ///
    /// # Panics
    ///
    /// This function panics if there is not enough remaining capacity in
    /// `self`.
    #[inline]
    fn put_i16_ne(&mut self, n: i16) {
        self.put_slice(&n.to_ne_bytes())
    }

    /// Writes an unsigned 32 bit integer to `self` in big-endian byte order.
    ///
    /// The current position is advanced by 4.
    ///
    /// # Examples
    ///
    /// ```
    /// use bytes::BufMut;
    ///
    /// let mut buf = vec![];
    /// buf.put_u32(0x0809A0A1);
    /// assert_eq!(buf, b"\x08\x09\xA0\xA1");
    /// ```
    ///
    /// # Panics
    ///
    /// This function panics if there is not enough remaining capacity in
    /// `self`.
    #[inline]
    fn put_u32(&mut self, n: u32) {
        self.put_slice(&n.to_be_bytes())
    }

    /// Writes an unsigned 32 bit integer to `self` in little-endian byte order.
    ///
    /// The current position is advanced by 4.
    ///
    /// # Examples
    ///
    /// ```
    /// use bytes::BufMut;
    ///
    /// let mut buf = vec![];
    /// buf.put_u32_le(0x0809A0A1);
    /// assert_eq!(buf, b"\xA1\xA0\x09\x08");
    /// ```
    ///
    /// # Panics
    ///
    /// This function panics if there is not enough remaining capacity in
    /// `self`.
    #[inline]
    fn put_u32_le(&mut self, n: u32) {
        self.put_slice(&n.to_le_bytes())
    }

    /// Writes an unsigned 32 bit integer to `self` in native-endian byte order.
    ///
    /// The current position is advanced by 4.
    ///
    /// # Examples
    ///
    /// ```
    /// use bytes::BufMut;
    ///
    /// let mut buf = vec![];
    /// buf.put_u32_ne(0x0809A0A1);
    /// if cfg!(target_endian = "big") {
    ///     assert_eq!(buf, b"\x08\x09\xA0\xA1");
    /// } else {
    ///     assert_eq!(buf, b"\xA1\xA0\x09\x08");
    /// }
    /// ```
    ///
    /// # Panics
    ///
    /// This function panics if there is not enough remaining capacity in
    /// `self`.
    #[inline]
    fn put_u32_ne(&mut self, n: u32) {
        self.put_slice(&n.to_ne_bytes())
    }

    /// Writes a signed 32 bit integer to `self` in big-endian byte order.
    ///
    /// The current position is advanced by 4.
    ///
    /// # Examples
    ///
    /// ```
    /// use bytes::BufMut;
    ///
    /// let mut buf = vec![];
    /// buf.put_i32(0x0809A0A1);
    /// assert_eq!(buf, b"\x08\x09\xA0\xA1");
    /// ```
    ///
    /// # Panics
    ///
    /// This function panics if there is not enough remaining capacity in
    /// `self`.
    #[inline]
    fn put_i32(&mut self, n: i32) {
        self.put_slice(&n.to_be_bytes())
    }

    /// Writes a signed 32 bit integer to `self` in little-endian byte order.
    ///
    /// The current position is advanced by 4.
    ///
    /// # Examples
    ///
    /// ```
    /// use bytes::BufMut;
    ///
    /// let mut buf = vec![];
    /// buf.put_i32_le(0x0809A0A1);
    /// assert_eq!(buf, b"\xA1\xA0\x09\x08");
    /// ```
    ///
    /// # Panics
    ///
    /// This function panics if there is not enough remaining capacity in
    /// `self`.
    #[inline]
    fn put_i32_le(&mut self, n: i32) {
        self.put_slice(&n.to_le_bytes())
    }

    /// Writes a signed 32 bit integer to `self` in native-endian byte order.
    ///
    /// The current position is advanced by 4.
    ///
    /// # Examples
    ///
    /// ```
    /// use bytes::BufMut;
    ///
    /// let mut buf = vec![];
    /// buf.put_i32_ne(0x0809A0A1);
    /// if cfg!(target_endian = "big") {
    ///     assert_eq!(buf, b"\x08\x09\xA0\xA1");
    /// } else {
    ///     assert_eq!(buf, b"\xA1\xA0\x09\x08");
    /// }
    /// ```
    ///
    /// # Panics
    ///
    /// This function panics if there is not enough remaining capacity in
    /// `self`.
    #[inline]
    fn put_i32_ne(&mut self, n: i32) {
        self.put_slice(&n.to_ne_bytes())
    }

    /// Writes an unsigned 64 bit integer to `self` in the big-endian byte order.
    ///
    /// The current position is advanced by 8.
    ///
    /// # Examples
    ///
    /// ```
    /// use bytes::BufMut;
    ///
    /// let mut buf = vec![];
    /// buf.put_u64(0x0102030405060708);
    /// assert_eq!(buf, b"\x01\x02\x03\x04\x05\x06\x07\x08");
    /// ```
    ///
    /// # Panics
    ///
    /// This function panics if there is not enough remaining capacity in
    /// `self`.
    #[inline]
    fn put_u64(&mut self, n: u64) {
        self.put_slice(&n.to_be_bytes())
    }

    /// Writes an unsigned 64 bit integer to `self` in little-endian byte order.
    ///
    /// The current position is advanced by 8.
    ///
    /// # Examples
    ///
    /// ```
    /// use bytes::BufMut;
    ///
    /// let mut buf = vec![];
    /// buf.put_u64_le(0x0102030405060708);
    /// assert_eq!(buf, b"\x08\x07\x06\x05\x04\x03\x02\x01");
    /// ```
    ///
    /// # Panics
    ///
    /// This function panics if there is not enough remaining capacity in
    /// `self`.
    #[inline]
    fn put_u64_le(&mut self, n: u64) {
        self.put_slice(&n.to_le_bytes())
    }

    /// Writes an unsigned 64 bit integer to `self` in native-endian byte order.
    ///
    /// The current position is advanced by 8.
    ///
    /// # Examples
    ///
    /// ```
    /// use bytes::BufMut;
    ///
    /// let mut buf = vec![];
    /// buf.put_u64_ne(0x0102030405060708);
    /// if cfg!(target_endian = "big") {
    ///     assert_eq!(buf, b"\x01\x02\x03\x04\x05\x06\x07\x08");
    /// } else {
    ///     assert_eq!(buf, b"\x08\x07\x06\x05\x04\x03\x02\x01");
    /// }
    /// ```
    ///
    /// # Panics
    ///
    /// This function panics if there is not enough remaining capacity in
    /// `self`.
    #[inline]
    fn put_u64_ne(&mut self, n: u64) {
        self.put_slice(&n.to_ne_bytes())
    }

    /// Writes a signed 64 bit integer to `self` in the big-endian byte order.
    ///
    /// The current position is advanced by 8.
    ///
    /// # Examples
    ///
    /// ```
    /// use bytes::BufMut;
    ///
    /// let mut buf = vec![];
    /// buf.put_i64(0x0102030405060708);
    /// assert_eq!(buf, b"\x01\x02\x03\x04\x05\x06\x07\x08");
    /// ```
    ///
    /// # Panics
    ///
    /// This function panics if there is not enough remaining capacity in
    /// `self`.
    #[inline]
    fn put_i64(&mut self, n: i64) {
        self.put_slice(&n.to_be_bytes())
    }

    /// Writes a signed 64 bit integer to `self` in little-endian byte order.
    ///
    /// The current position is advanced by 8.
    ///
    /// # Examples
    ///
    /// ```
    /// use bytes::BufMut;
    ///
    /// let mut buf = vec![];
    /// buf.put_i64_le(0x0102030405060708);
    /// assert_eq!(buf, b"\x08\x07\x06\x05\x04\x03\x02\x01");
    /// ```
    ///
    /// # Panics
    ///
    /// This function panics if there is not enough remaining capacity in
    /// `self`.
    #[inline]
    fn put_i64_le(&mut self, n: i64) {
        self.put_slice(&n.to_le_bytes())
    }

    /// Writes a signed 64 bit integer to `self` in native-endian byte order.
    ///
    /// The current position is advanced by 8.
    ///
    /// # Examples
    ///
    /// ```
    /// use bytes::BufMut;
    ///
    /// let mut buf = vec![];
    /// buf.put_i64_ne(0x0102030405060708);
    /// if cfg!(target_endian = "big") {
    ///     assert_eq!(buf, b"\x01\x02\x03\x04\x05\x06\x07\x08");
    /// } else {
    ///     assert_eq!(buf, b"\x08\x07\x06\x05\x04\x03\x02\x01");
    /// }
    /// ```
    ///
    /// # Panics
    ///
    /// This function panics if there is not enough remaining capacity in
    /// `self`.
    #[inline]
    fn put_i64_ne(&mut self, n: i64) {
        self.put_slice(&n.to_ne_bytes())
    }

    /// Writes an unsigned 128 bit integer to `self` in the big-endian byte order.
    ///
    /// The current position is advanced by 16.
    ///
    /// # Examples
    ///
    /// ```
    /// use bytes::BufMut;
    ///
    /// let mut buf = vec![];
    /// buf.put_u128(0x01020304050607080910111213141516);
    /// assert_eq!(buf, b"\x01\x02\x03\x04\x05\x06\x07\x08\x09\x10\x11\x12\x13\x14\x15\x16");
    /// ```
    ///
    /// # Panics
    ///
    /// This function panics if there is not enough remaining capacity in
    /// `self`.
    #[inline]
    fn put_u128(&mut self, n: u128) {
        self.put_slice(&n.to_be_bytes())
    }

    /// Writes an unsigned 128 bit integer to `self` in little-endian byte order.
    ///
    /// The current position is advanced by 16.
    ///
    /// # Examples
    ///
    /// ```
    /// use bytes::BufMut;
    ///
    /// let mut buf = vec![];
    /// buf.put_u128_le(0x01020304050607080910111213141516);
    /// assert_eq!(buf, b"\x16\x15\x14\x13\x12\x11\x10\x09\x08\x07\x06\x05\x04\x03\x02\x01");
    /// ```
    ///
    /// # Panics
    ///
    /// This function panics if there is not enough remaining capacity in
    /// `self`.
    #[inline]
    fn put_u128_le(&mut self, n: u128) {
        self.put_slice(&n.to_le_bytes())
    }

    /// Writes an unsigned 128 bit integer to `self` in native-endian byte order.
    ///
    /// The current position is advanced by 16.
    ///
    /// # Examples
    ///
    /// ```
    /// use bytes::BufMut;
    ///
    /// let mut buf = vec![];
    /// buf.put_u128_ne(0x01020304050607080910111213141516);
    /// if cfg!(target_endian = "big") {
    ///     assert_eq!(buf, b"\x01\x02\x03\x04\x05\x06\x07\x08\x09\x10\x11\x12\x13\x14\x15\x16");
    /// } else {
    ///     assert_eq!(buf, b"\x16\x15\x14\x13\x12\x11\x10\x09\x08\x07\x06\x05\x04\x03\x02\x01");
    /// }
    /// ```
    ///
    /// # Panics
    ///
    /// This function panics if there is not enough remaining capacity in
    /// `self`.
    #[inline]
    fn put_u128_ne(&mut self, n: u128) {
        self.put_slice(&n.to_ne_bytes())
    }

    /// Writes a signed 128 bit integer to `self` in the big-endian byte order.
    ///
    /// The current position is advanced by 16.
    ///
    /// # Examples
    ///
    /// ```
    /// use bytes::BufMut;
    ///
    /// let mut buf = vec![];
    /// buf.put_i128(0x01020304050607080910111213141516);
    /// assert_eq!(buf, b"\x01\x02\x03\x04\x05\x06\x07\x08\x09\x10\x11\x12\x13\x14\x15\x16");
    /// ```
    ///
    /// # Panics
    ///
    /// This function panics if there is not enough remaining capacity in
    /// `self`.
    #[inline]
    fn put_i128(&mut self, n: i128) {
        self.put_slice(&n.to_be_bytes())
    }

    /// Writes a signed 128 bit integer to `self` in little-endian byte order.
    ///
    /// The current position is advanced by 16.
    ///
    /// # Examples
    ///
    /// ```
    /// use bytes::BufMut;
    ///
    /// let mut buf = vec![];
    /// buf.put_i128_le(0x01020304050607080910111213141516);
    /// assert_eq!(buf, b"\x16\x15\x14\x13\x12\x11\x10\x09\x08\x07\x06\x05\x04\x03\x02\x01");
    /// ```
    ///
    /// # Panics
    ///
    /// This function panics if there is not enough remaining capacity in
    /// `self`.
    #[inline]
    fn put_i128_le(&mut self, n: i128) {
        self.put_slice(&n.to_le_bytes())
    }

    /// Writes a signed 128 bit integer to `self` in native-endian byte order.
    ///
    /// The current position is advanced by 16.
    ///
    /// # Examples
    ///
    /// ```
    /// use bytes::BufMut;
    ///
    /// let mut buf = vec![];
    /// buf.put_i128_ne(0x01020304050607080910111213141516);
    /// if cfg!(target_endian = "big") {
    ///     assert_eq!(buf, b"\x01\x02\x03\x04\x05\x06\x07\x08\x09\x10\x11\x12\x13\x14\x15\x16");
    /// } else {
    ///     assert_eq!(buf, b"\x16\x15\x14\x13\x12\x11\x10\x09\x08\x07\x06\x05\x04\x03\x02\x01");
    /// }
    /// ```
    ///
    /// # Panics
    ///
    /// This function panics if there is not enough remaining capacity in
    /// `self`.
    #[inline]
    fn put_i128_ne(&mut self, n: i128) {
        self.put_slice(&n.to_ne_bytes())
    }

    /// Writes an unsigned n-byte integer to `self` in big-endian byte order.
    ///
    /// The current position is advanced by `nbytes`.
    ///
    /// # Examples
    ///
    /// ```
    /// use bytes::BufMut;
    ///
    /// let mut buf = vec![];
    /// buf.put_uint(0x010203, 3);
    /// assert_eq!(buf, b"\x01\x02\x03");
    /// ```
    ///
    /// # Panics
    ///
    /// This function panics if there is not enough remaining capacity in
    /// `self` or if `nbytes` is greater than 8.
    #[inline]
    fn put_uint(&mut self, n: u64, nbytes: usize) {
        let start = match mem::size_of_val(&n).checked_sub(nbytes) {
            Some(start) => start,
            None => panic_does_not_fit(nbytes, mem::size_of_val(&n)),
        };

        self.put_slice(&n.to_be_bytes()[start..]);
    }

    /// Writes an unsigned n-byte integer to `self` in the little-endian byte order.
    ///
    /// The current position is advanced by `nbytes`.
    ///
    /// # Examples
    ///
    /// ```
    /// use bytes::BufMut;
    ///
    /// let mut buf = vec![];
    /// buf.put_uint_le(0x010203, 3);
    /// assert_eq!(buf, b"\x03\x02\x01");
    /// ```
    ///
    /// # Panics
    ///
    /// This function panics if there is not enough remaining capacity in
    /// `self` or if `nbytes` is greater than 8.
    #[inline]
    fn put_uint_le(&mut self, n: u64, nbytes: usize) {
        let slice = n.to_le_bytes();
        let slice = match slice.get(..nbytes) {
            Some(slice) => slice,
            None => panic_does_not_fit(nbytes, slice.len()),
        };

        self.put_slice(slice);
    }

    /// Writes an unsigned n-byte integer to `self` in the native-endian byte order.
    ///
    /// The current position is advanced by `nbytes`.
    ///
    /// # Examples
    ///
    /// ```
    /// use bytes::BufMut;
    ///
    /// let mut buf = vec![];
    /// buf.put_uint_ne(0x010203, 3);
    /// if cfg!(target_endian = "big") {
    ///     assert_eq!(buf, b"\x01\x02\x03");
    /// } else {
    ///     assert_eq!(buf, b"\x03\x02\x01");
    /// }
    /// ```
    ///
    /// # Panics
    ///
    /// This function panics if there is not enough remaining capacity in
    /// `self` or if `nbytes` is greater than 8.
    #[inline]
    fn put_uint_ne(&mut self, n: u64, nbytes: usize) {
        if cfg!(target_endian = "big") {
            self.put_uint(n, nbytes)
        } else {
            self.put_uint_le(n, nbytes)
        }
    }

    /// Writes low `nbytes` of a signed integer to `self` in big-endian byte order.
    ///
    /// The current position is advanced by `nbytes`.
    ///
    /// # Examples
    ///
    /// ```
    /// use bytes::BufMut;
    ///
    /// let mut buf = vec![];
    /// buf.put_int(0x0504010203, 3);
    /// assert_eq!(buf, b"\x01\x02\x03");
    /// ```
    ///
    /// # Panics
    ///
    /// This function panics if there is not enough remaining capacity in
    /// `self` or if `nbytes` is greater than 8.
    #[inline]
    fn put_int(&mut self, n: i64, nbytes: usize) {
        let start = match mem::size_of_val(&n).checked_sub(nbytes) {
            Some(start) => start,
            None => panic_does_not_fit(nbytes, mem::size_of_val(&n)),
        };

        self.put_slice(&n.to_be_bytes()[start..]);
    }

    /// Writes low `nbytes` of a signed integer to `self` in little-endian byte order.
    ///
    /// The current position is advanced by `nbytes`.
    ///
    /// # Examples
    ///
    /// ```
    /// use bytes::BufMut;
    ///
    /// let mut buf = vec![];
    /// buf.put_int_le(0x0504010203, 3);
    /// assert_eq!(buf, b"\x03\x02\x01");
    /// ```
    ///
    /// # Panics
    ///
    /// This function panics if there is not enough remaining capacity in
    /// `self` or if `nbytes` is greater than 8.
    #[inline]
    fn put_int_le(&mut self, n: i64, nbytes: usize) {
        let slice = n.to_le_bytes();
        let slice = match slice.get(..nbytes) {
            Some(slice) => slice,
            None => panic_does_not_fit(nbytes, slice.len()),
        };

        self.put_slice(slice);
    }

    /// Writes low `nbytes` of a signed integer to `self` in native-endian byte order.
    ///
    /// The current position is advanced by `nbytes`.
    ///
    /// # Examples
    ///
    /// ```
    /// use bytes::BufMut;
    ///
    /// let mut buf = vec![];
    /// buf.put_int_ne(0x010203, 3);
    /// if cfg!(target_endian = "big") {
    ///     assert_eq!(buf, b"\x01\x02\x03");
    /// } else {
    ///     assert_eq!(buf, b"\x03\x02\x01");
    /// }
    /// ```
    ///
    /// # Panics
    ///
    /// This function panics if there is not enough remaining capacity in
    /// `self` or if `nbytes` is greater than 8.
    #[inline]
    fn put_int_ne(&mut self, n: i64, nbytes: usize) {
        if cfg!(target_endian = "big") {
            self.put_int(n, nbytes)
        } else {
            self.put_int_le(n, nbytes)
        }
    }

    /// Writes an IEEE754 single-precision (4 bytes) floating point number to
    /// `self` in big-endian byte order.
    ///
    /// The current position is advanced by 4.
    ///
    /// # Examples
    ///
    /// ```
    /// use bytes::BufMut;
    ///
    /// let mut buf = vec![];
    /// buf.put_f32(1.2f32);
    /// assert_eq!(buf, b"\x3F\x99\x99\x9A");
    /// ```
    ///
    /// # Panics
    ///
    /// This function panics if there is not enough remaining capacity in
    /// `self`.
    #[inline]
    fn put_f32(&mut self, n: f32) {
        self.put_u32(n.to_bits());
    }

    /// Writes an IEEE754 single-precision (4 bytes) floating point number to
    /// `self` in little-endian byte order.
    ///
    /// The current position is advanced by 4.
    ///
    /// # Examples
    ///
    /// ```
    /// use bytes::BufMut;
    ///
    /// let mut buf = vec![];
    /// buf.put_f32_le(1.2f32);
    /// assert_eq!(buf, b"\x9A\x99\x99\x3F");
    /// ```
    ///
    /// # Panics
    ///
    /// This function panics if there is not enough remaining capacity in
    /// `self`.
    #[inline]
    fn put_f32_le(&mut self, n: f32) {
        self.put_u32_le(n.to_bits());
    }

    /// Writes an IEEE754 single-precision (4 bytes) floating point number to
    /// `self` in native-endian byte order.
    ///
    /// The current position is advanced by 4.
    ///
    /// # Examples
    ///
    /// ```
    /// use bytes::BufMut;
    ///
    /// let mut buf = vec![];
    /// buf.put_f32_ne(1.2f32);
    /// if cfg!(target_endian = "big") {
    ///     assert_eq!(buf, b"\x3F\x99\x99\x9A");
    /// } else {
    ///     assert_eq!(buf, b"\x9A\x99\x99\x3F");
    /// }
    /// ```
    ///
    /// # Panics
    ///
    /// This function panics if there is not enough remaining capacity in
    /// `self`.
    #[inline]
    fn put_f32_ne(&mut self, n: f32) {
        self.put_u32_ne(n.to_bits());
    }

    /// Writes an IEEE754 double-precision (8 bytes) floating point number to
    /// `self` in big-endian byte order.
    ///
    /// The current position is advanced by 8.
    ///
    /// # Examples
    ///
    /// ```
    /// use bytes::BufMut;
    ///
    /// let mut buf = vec![];
    /// buf.put_f64(1.2f64);
    /// assert_eq!(buf, b"\x3F\xF3\x33\x33\x33\x33\x33\x33");
    /// ```
    ///
    /// # Panics
    ///
    /// This function panics if there is not enough remaining capacity in
    /// `self`.
    #[inline]
    fn put_f64(&mut self, n: f64) {
        self.put_u64(n.to_bits());
    }

    /// Writes an IEEE754 double-precision (8 bytes) floating point number to
    /// `self` in little-endian byte order.
    ///
    /// The current position is advanced by 8.
    ///
    /// # Examples
    ///
    /// ```
    /// use bytes::BufMut;
    ///
    /// let mut buf = vec![];
    /// buf.put_f64_le(1.2f64);
    /// assert_eq!(buf, b"\x33\x33\x33\x33\x33\x33\xF3\x3F");
    /// ```
    ///
    /// # Panics
    ///
    /// This function panics if there is not enough remaining capacity in
    /// `self`.
    #[inline]
    fn put_f64_le(&mut self, n: f64) {
        self.put_u64_le(n.to_bits());
    }

    /// Writes an IEEE754 double-precision (8 bytes) floating point number to
    /// `self` in native-endian byte order.
    ///
    /// The current position is advanced by 8.
    ///
    /// # Examples
    ///
    /// ```
    /// use bytes::BufMut;
    ///
    /// let mut buf = vec![];
    /// buf.put_f64_ne(1.2f64);
    /// if cfg!(target_endian = "big") {
    ///     assert_eq!(buf, b"\x3F\xF3\x33\x33\x33\x33\x33\x33");
    /// } else {
    ///     assert_eq!(buf, b"\x33\x33\x33\x33\x33\x33\xF3\x3F");
    /// }
    /// ```
    ///
    /// # Panics
    ///
    /// This function panics if there is not enough remaining capacity in
    /// `self`.
    #[inline]
    fn put_f64_ne(&mut self, n: f64) {
        self.put_u64_ne(n.to_bits());
    }

    /// Creates an adaptor which can write at most `limit` bytes to `self`.
    ///
    /// # Examples
    ///
    /// ```
    /// use bytes::BufMut;
    ///
    /// let arr = &mut [0u8; 128][..];
    /// assert_eq!(arr.remaining_mut(), 128);
    ///
    /// let dst = arr.limit(10);
    /// assert_eq!(dst.remaining_mut(), 10);
    /// ```
    #[inline]
    fn limit(self, limit: usize) -> Limit<Self>
    where
        Self: Sized,
    {
        limit::new(self, limit)
    }

    /// Creates an adaptor which implements the `Write` trait for `self`.
    ///
    /// This function returns a new value which implements `Write` by adapting
    /// the `Write` trait functions to the `BufMut` trait functions. Given that
    /// `BufMut` operations are infallible, none of the `Write` functions will
    /// return with `Err`.
    ///
    /// # Examples
    ///
    /// ```
    /// use bytes::BufMut;
    /// use std::io::Write;
    ///
    /// let mut buf = vec![].writer();
    ///
    /// let num = buf.write(&b"hello world"[..]).unwrap();
    /// assert_eq!(11, num);
    ///
    /// let buf = buf.into_inner();
    ///
    /// assert_eq!(*buf, b"hello world"[..]);
    /// ```
    #[cfg(feature = "std")]
    #[cfg_attr(docsrs, doc(cfg(feature = "std")))]
    #[inline]
    fn writer(self) -> Writer<Self>
    where
        Self: Sized,
    {
        writer::new(self)
    }

    /// Creates an adapter which will chain this buffer with another.
    ///
    /// The returned `BufMut` instance will first write to all bytes from
    /// `self`. Afterwards, it will write to `next`.
    ///
    /// # Examples
    ///
    /// ```
    /// use bytes::BufMut;
    ///
    /// let mut a = [0u8; 5];
    /// let mut b = [0u8; 6];
    ///
    /// let mut chain = (&mut a[..]).chain_mut(&mut b[..]);
    ///
    /// chain.put_slice(b"hello world");
    ///
    /// assert_eq!(&a[..], b"hello");
    /// assert_eq!(&b[..], b" world");
    /// ```
    #[inline]
    fn chain_mut<U: BufMut>(self, next: U) -> Chain<Self, U>
    where
        Self: Sized,
    {
        Chain::new(self, next)
    }
}

macro_rules! deref_forward_bufmut {
    () => {
        #[inline]
        fn remaining_mut(&self) -> usize {
            (**self).remaining_mut()
        }

        #[inline]
        fn chunk_mut(&mut self) -> &mut UninitSlice {
            (**self).chunk_mut()
        }

        #[inline]
        unsafe fn advance_mut(&mut self, cnt: usize) {
            (**self).advance_mut(cnt)
        }

        #[inline]
        fn put_slice(&mut self, src: &[u8]) {
            (**self).put_slice(src)
        }

        #[inline]
        fn put_u8(&mut self, n: u8) {
            (**self).put_u8(n)
        }

        #[inline]
        fn put_i8(&mut self, n: i8) {
            (**self).put_i8(n)
        }

        #[inline]
        fn put_u16(&mut self, n: u16) {
            (**self).put_u16(n)
        }

        #[inline]
        fn put_u16_le(&mut self, n: u16) {
            (**self).put_u16_le(n)
        }

        #[inline]
        fn put_u16_ne(&mut self, n: u16) {
            (**self).put_u16_ne(n)
        }

        #[inline]
        fn put_i16(&mut self, n: i16) {
            (**self).put_i16(n)
        }

        #[inline]
        fn put_i16_le(&mut self, n: i16) {
            (**self).put_i16_le(n)
        }

        #[inline]
        fn put_i16_ne(&mut self, n: i16) {
            (**self).put_i16_ne(n)
        }

        #[inline]
        fn put_u32(&mut self, n: u32) {
            (**self).put_u32(n)
        }

        #[inline]
        fn put_u32_le(&mut self, n: u32) {
            (**self).put_u32_le(n)
        }

        #[inline]
        fn put_u32_ne(&mut self, n: u32) {
            (**self).put_u32_ne(n)
        }

        #[inline]
        fn put_i32(&mut self, n: i32) {
            (**self).put_i32(n)
        }

        #[inline]
        fn put_i32_le(&mut self, n: i32) {
            (**self).put_i32_le(n)
        }

        #[inline]
        fn put_i32_ne(&mut self, n: i32) {
            (**self).put_i32_ne(n)
        }

        #[inline]
        fn put_u64(&mut self, n: u64) {
            (**self).put_u64(n)
        }

        #[inline]
        fn put_u64_le(&mut self, n: u64) {
            (**self).put_u64_le(n)
        }

        #[inline]
        fn put_u64_ne(&mut self, n: u64) {
            (**self).put_u64_ne(n)
        }

        #[inline]
        fn put_i64(&mut self, n: i64) {
            (**self).put_i64(n)
        }

        #[inline]
        fn put_i64_le(&mut self, n: i64) {
            (**self).put_i64_le(n)
        }

        #[inline]
        fn put_i64_ne(&mut self, n: i64) {
            (**self).put_i64_ne(n)
        }
    };
}

unsafe impl<T: BufMut + ?Sized> BufMut for &mut T {
    deref_forward_bufmut!();
}

unsafe impl<T: BufMut + ?Sized> BufMut for Box<T> {
    deref_forward_bufmut!();
}

unsafe impl BufMut for &mut [u8] {
    #[inline]
    fn remaining_mut(&self) -> usize {
        self.len()
    }

    #[inline]
    fn chunk_mut(&mut self) -> &mut UninitSlice {
        UninitSlice::new(self)
    }

    #[inline]
    unsafe fn advance_mut(&mut self, cnt: usize) {
        if self.len() < cnt {
            panic_advance(&TryGetError {
                requested: cnt,
                available: self.len(),
            });
        }

        // Lifetime dance taken from `impl Write for &mut [u8]`.
        let (_, b) = core::mem::take(self).split_at_mut(cnt);
        *self = b;
    }

    #[inline]
    fn put_slice(&mut self, src: &[u8]) {
        if self.len() < src.len() {
            panic_advance(&TryGetError {
                requested: src.len(),
                available: self.len(),
            });
        }

        self[..src.len()].copy_from_slice(src);
        // SAFETY: We just initialized `src.len()` bytes.
        unsafe { self.advance_mut(src.len()) };
    }

    #[inline]
    fn put_bytes(&mut self, val: u8, cnt: usize) {
        if self.len() < cnt {
            panic_advance(&TryGetError {
                requested: cnt,
                available: self.len(),
            });
        }

        // SAFETY: We just checked that the pointer is valid for `cnt` bytes.
        unsafe {
            ptr::write_bytes(self.as_mut_ptr(), val, cnt);
            self.advance_mut(cnt);
        }
    }
}

unsafe impl BufMut for &mut [core::mem::MaybeUninit<u8>] {
    #[inline]
    fn remaining_mut(&self) -> usize {
        self.len()
    }

    #[inline]
    fn chunk_mut(&mut self) -> &mut UninitSlice {
        UninitSlice::uninit(self)
    }

    #[inline]
    unsafe fn advance_mut(&mut self, cnt: usize) {
        if self.len() < cnt {
            panic_advance(&TryGetError {
                requested: cnt,
                available: self.len(),
            });
        }

        // Lifetime dance taken from `impl Write for &mut [u8]`.
        let (_, b) = core::mem::take(self).split_at_mut(cnt);
        *self = b;
    }

    #[inline]
    fn put_slice(&mut self, src: &[u8]) {
        if self.len() < src.len() {
            panic_advance(&TryGetError {
                requested: src.len(),
                available: self.len(),
            });
        }

        // SAFETY: We just checked that the pointer is valid for `src.len()` bytes.
        unsafe {
            ptr::copy_nonoverlapping(src.as_ptr(), self.as_mut_ptr().cast(), src.len());
            self.advance_mut(src.len());
        }
    }

    #[inline]
    fn put_bytes(&mut self, val: u8, cnt: usize) {
        if self.len() < cnt {
            panic_advance(&TryGetError {
                requested: cnt,
                available: self.len(),
            });
        }

        // SAFETY: We just checked that the pointer is valid for `cnt` bytes.
        unsafe {
            ptr::write_bytes(self.as_mut_ptr() as *mut u8, val, cnt);
            self.advance_mut(cnt);
        }
    }
}

unsafe impl BufMut for Vec<u8> {
    #[inline]
    fn remaining_mut(&self) -> usize {
        // A vector can never have more than isize::MAX bytes
        isize::MAX as usize - self.len()
    }

    #[inline]
    unsafe fn advance_mut(&mut self, cnt: usize) {
        let len = self.len();
        let remaining = self.capacity() - len;

        if remaining < cnt {
            panic_advance(&TryGetError {
                requested: cnt,
                available: remaining,
            });
        }

        // Addition will not overflow since the sum is at most the capacity.
        self.set_len(len + cnt);
    }

    #[inline]
    fn chunk_mut(&mut self) -> &mut UninitSlice {
        if self.capacity() == self.len() {
            self.reserve(64); // Grow the vec
        }

        let cap = self.capacity();
        let len = self.len();

        let ptr = self.as_mut_ptr();
        // SAFETY: Since `ptr` is valid for `cap` bytes, `ptr.add(len)` must be
        // valid for `cap - len` bytes. The subtraction will not underflow since
        // `len <= cap`.
        unsafe { UninitSlice::from_raw_parts_mut(ptr.add(len), cap - len) }
    }

    // Specialize these methods so they can skip checking `remaining_mut`
    // and `advance_mut`.
    #[inline]
    fn put<T: super::Buf>(&mut self, mut src: T)
    where
        Self: Sized,
    {
        // In case the src isn't contiguous, reserve upfront.
        self.reserve(src.remaining());

        while src.has_remaining() {
            let s = src.chunk();
            let l = s.len();
            self.extend_from_slice(s);
            src.advance(l);
        }
    }

    #[inline]
    fn put_slice(&mut self, src: &[u8]) {
        self.extend_from_slice(src);
    }

    #[inline]
    fn put_bytes(&mut self, val: u8, cnt: usize) {
        // If the addition overflows, then the `resize` will fail.
        let new_len = self.len().saturating_add(cnt);
        self.resize(new_len, val);
    }
}

// The existence of this function makes the compiler catch if the BufMut
// trait is "object-safe" or not.
fn _assert_trait_object(_b: &dyn BufMut) {}

use crate::Buf;

use core::cmp;

#[cfg(feature = "std")]
use std::io::IoSlice;

/// A `Buf` adapter which limits the bytes read from an underlying buffer.
///
/// This struct is generally created by calling `take()` on `Buf`. See
/// documentation of [`take()`](Buf::take) for more details.
#[derive(Debug)]
pub struct Take<T> {
    inner: T,
    limit: usize,
}

pub fn new<T>(inner: T, limit: usize) -> Take<T> {
    Take { inner, limit }
}

impl<T> Take<T> {
    /// Consumes this `Take`, returning the underlying value.
    ///
    /// # Examples
    ///
    /// ```rust
    /// use bytes::{Buf, BufMut};
    ///
    /// let mut buf = b"hello world".take(2);
    /// let mut dst = vec![];
    ///
    /// dst.put(&mut buf);
    /// assert_eq!(*dst, b"he"[..]);
    ///
    /// let mut buf = buf.into_inner();
    ///
    /// dst.clear();
    /// dst.put(&mut buf);
    /// assert_eq!(*dst, b"llo world"[..]);
    /// ```
    pub fn into_inner(self) -> T {
        self.inner
    }

    /// Gets a reference to the underlying `Buf`.
    ///
    /// It is inadvisable to directly read from the underlying `Buf`.
    ///
    /// # Examples
    ///
    /// ```rust
    /// use bytes::Buf;
    ///
    /// let buf = b"hello world".take(2);
    ///
    /// assert_eq!(11, buf.get_ref().remaining());
    /// ```
    pub fn get_ref(&self) -> &T {
        &self.inner
    }

    /// Gets a mutable reference to the underlying `Buf`.
    ///
    /// It is inadvisable to directly read from the underlying `Buf`.
    ///
    /// # Examples
    ///
    /// ```rust
    /// use bytes::{Buf, BufMut};
    ///
    /// let mut buf = b"hello world".take(2);
    /// let mut dst = vec![];
    ///
    /// buf.get_mut().advance(2);
    ///
    /// dst.put(&mut buf);
    /// assert_eq!(*dst, b"ll"[..]);
    /// ```
    pub fn get_mut(&mut self) -> &mut T {
        &mut self.inner
    }

    /// Returns the maximum number of bytes that can be read.
    ///
    /// # Note
    ///
    /// If the inner `Buf` has fewer bytes than indicated by this method then
    /// that is the actual number of available bytes.
    ///
    /// # Examples
    ///
    /// ```rust
    /// use bytes::Buf;
    ///
    /// let mut buf = b"hello world".take(2);
    ///
    /// assert_eq!(2, buf.limit());
    /// assert_eq!(b'h', buf.get_u8());
    /// assert_eq!(1, buf.limit());
    /// ```
    pub fn limit(&self) -> usize {
        self.limit
    }

    /// Sets the maximum number of bytes that can be read.
    ///
    /// # Note
    ///
    /// If the inner `Buf` has fewer bytes than `lim` then that is the actual
    /// number of available bytes.
    ///
    /// # Examples
    ///
    /// ```rust
    /// use bytes::{Buf, BufMut};
    ///
    /// let mut buf = b"hello world".take(2);
    /// let mut dst = vec![];
    ///
    /// dst.put(&mut buf);
    /// assert_eq!(*dst, b"he"[..]);
    ///
    /// dst.clear();
    ///
    /// buf.set_limit(3);
    /// dst.put(&mut buf);
    /// assert_eq!(*dst, b"llo"[..]);
    /// ```
    pub fn set_limit(&mut self, lim: usize) {
        self.limit = lim
    }
}

impl<T: Buf> Buf for Take<T> {
    fn remaining(&self) -> usize {
        cmp::min(self.inner.remaining(), self.limit)
    }

    fn chunk(&self) -> &[u8] {
        let bytes = self.inner.chunk();
        &bytes[..cmp::min(bytes.len(), self.limit)]
    }

    fn advance(&mut self, cnt: usize) {
        assert!(cnt <= self.limit);
        self.inner.advance(cnt);
        self.limit -= cnt;
    }

    fn copy_to_bytes(&mut self, len: usize) -> crate::Bytes {
        assert!(len <= self.remaining(), "`len` greater than remaining");

        let r = self.inner.copy_to_bytes(len);
        self.limit -= len;
        r
    }

    #[cfg(feature = "std")]
    fn chunks_vectored<'a>(&'a self, dst: &mut [IoSlice<'a>]) -> usize {
        if self.limit == 0 {
            return 0;
        }

        const LEN: usize = 16;
        let mut slices: [IoSlice<'a>; LEN] = [IoSlice::new(&[]); LEN];

        let cnt = self
            .inner
            .chunks_vectored(&mut slices[..dst.len().min(LEN)]);
        let mut limit = self.limit;
        for (i, (dst, slice)) in dst[..cnt].iter_mut().zip(slices.iter()).enumerate() {
            if let Some(buf) = slice.get(..limit) {
                // SAFETY: We could do this safely with `IoSlice::advance` if we had a larger MSRV.
                let buf = unsafe { std::mem::transmute::<&[u8], &'a [u8]>(buf) };
                *dst = IoSlice::new(buf);
                return i + 1;
            } else {
                // SAFETY: We could do this safely with `IoSlice::advance` if we had a larger MSRV.
                let buf = unsafe { std::mem::transmute::<&[u8], &'a [u8]>(slice) };
                *dst = IoSlice::new(buf);
                limit -= slice.len();
            }
        }
        cnt
    }
}

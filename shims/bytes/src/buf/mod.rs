//! Utilities for working with buffers.
//!
//! A buffer is any structure that contains a sequence of bytes. The bytes may
//! or may not be stored in contiguous memory. This module contains traits used
//! to abstract over buffers as well as utilities for working with buffer types.
//!
//! # `Buf`, `BufMut`
//!
//! These are the two foundational traits for abstractly working with buffers.
//! They can be thought as iterators for byte structures. They offer additional
//! performance over `Iterator` by providing an API optimized for byte slices.
//!
//! See [`Buf`] and [`BufMut`] for more details.
//!
//! [rope]: https://en.wikipedia.org/wiki/Rope_(data_structure)

mod buf_impl;
mod buf_mut;
mod chain;
mod iter;
mod limit;
#[cfg(feature = "std")]
mod reader;
mod take;
mod uninit_slice;
mod vec_deque;
#[cfg(feature = "std")]
mod writer;

pub use self::buf_impl::Buf;
pub use self::buf_mut::BufMut;
pub use self::chain::Chain;
pub use self::iter::IntoIter;
pub use self::limit::Limit;
pub use self::take::Take;
pub use self::uninit_slice::UninitSlice;

#[cfg(feature = "std")]
pub use self::{reader::Reader, writer::Writer};

use crate::BufMut;

use std::{cmp, io};

/// A `BufMut` adapter which implements `io::Write` for the inner value.
///
/// This struct is generally created by calling `writer()` on `BufMut`. See
/// documentation of [`writer()`](BufMut::writer) for more
/// details.
#[derive(Debug)]
pub struct Writer<B> {
    buf: B,
}

pub fn new<B>(buf: B) -> Writer<B> {
    Writer { buf }
}

impl<B: BufMut> Writer<B> {
    /// Gets a reference to the underlying `BufMut`.
    ///
    /// It is inadvisable to directly write to the underlying `BufMut`.
    ///
    /// # Examples
    ///
    /// ```rust
    /// use bytes::BufMut;
    ///
    /// let buf = Vec::with_capacity(1024).writer();
    ///
    /// assert_eq!(1024, buf.get_ref().capacity());
    /// ```
    pub fn get_ref(&self) -> &B {
        &self.buf
    }

    /// Gets a mutable reference to the underlying `BufMut`.
    ///
    /// It is inadvisable to directly write to the underlying `BufMut`.
    ///
    /// # Examples
    ///
    /// ```rust
    /// use bytes::BufMut;
    ///
    /// let mut buf = vec![].writer();
    ///
    /// buf.get_mut().reserve(1024);
    ///
    /// assert_eq!(1024, buf.get_ref().capacity());
    /// ```
    pub fn get_mut(&mut self) -> &mut B {
        &mut self.buf
    }

    /// Consumes this `Writer`, returning the underlying value.
    ///
    /// # Examples
    ///
    /// ```rust
    /// use bytes::BufMut;
    /// use std::io;
    ///
    /// let mut buf = vec![].writer();
    /// let mut src = &b"hello world"[..];
    ///
    /// io::copy(&mut src, &mut buf).unwrap();
    ///
    /// let buf = buf.into_inner();
    /// assert_eq!(*buf, b"hello world"[..]);
    /// ```
    pub fn into_inner(self) -> B {
        self.buf
    }
}

impl<B: BufMut + Sized> io::Write for Writer<B> {
    fn write(&mut self, src: &[u8]) -> io::Result<usize> {
        let n = cmp::min(self.buf.remaining_mut(), src.len());

        self.buf.put_slice(&src[..n]);
        Ok(n)
    }

    fn flush(&mut self) -> io::Result<()> {
        Ok(())
    }
}

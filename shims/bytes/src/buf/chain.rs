use crate::buf::{IntoIter, UninitSlice};
use crate::{Buf, BufMut};

#[cfg(feature = "std")]
use std::io::IoSlice;

/// A `Chain` sequences two buffers.
///
/// `Chain` is an adapter that links two underlying buffers and provides a
/// continuous view across both buffers. It is able to sequence either immutable
/// buffers ([`Buf`] values) or mutable buffers ([`BufMut`] values).
///
/// This struct is generally created by calling [`Buf::chain`]. Please see that
/// function's documentation for more detail.
///
/// # Examples
///
/// ```
/// use bytes::{Bytes, Buf};
///
/// let mut buf = (&b"hello "[..])
///     .chain(&b"world"[..]);
///
/// let full: Bytes = buf.copy_to_bytes(11);
/// assert_eq!(full[..], b"hello world"[..]);
/// ```
///
/// [`Buf::chain`]: Buf::chain
#[derive(Debug)]
pub struct Chain<T, U> {
    a: T,
    b: U,
}

impl<T, U> Chain<T, U> {
    /// Creates a new `Chain` sequencing the provided values.
    pub(crate) fn new(a: T, b: U) -> Chain<T, U> {
        Chain { a, b }
    }

    /// Gets a reference to the first underlying `Buf`.
    ///
    /// # Examples
    ///
    /// ```
    /// use bytes::Buf;
    ///
    /// let buf = (&b"hello"[..])
    ///     .chain(&b"world"[..]);
    ///
    /// assert_eq!(buf.first_ref()[..], b"hello"[..]);
    /// ```
    pub fn first_ref(&self) -> &T {
        &self.a
    }

    /// Gets a mutable reference to the first underlying `Buf`.
    ///
    /// # Examples
    ///
    /// ```
    /// use bytes::Buf;
    ///
    /// let mut buf = (&b"hello"[..])
    ///     .chain(&b"world"[..]);
    ///
    /// buf.first_mut().advance(1);
    ///
    /// let full = buf.copy_to_bytes(9);
    /// assert_eq!(full, b"elloworld"[..]);
    /// ```
    pub fn first_mut(&mut self) -> &mut T {
        &mut self.a
    }

    /// Gets a reference to the last underlying `Buf`.
    ///
    /// # Examples
    ///
    /// ```
    /// use bytes::Buf;
    ///
    /// let buf = (&b"hello"[..])
    ///     .chain(&b"world"[..]);
    ///
    /// assert_eq!(buf.last_ref()[..], b"world"[..]);
    /// ```
    pub fn last_ref(&self) -> &U {
        &self.b
    }

    /// Gets a mutable reference to the last underlying `Buf`.
    ///
    /// # Examples
    ///
    /// ```
    /// use bytes::Buf;
    ///
    /// let mut buf = (&b"hello "[..])
    ///     .chain(&b"world"[..]);
    ///
    /// buf.last_mut().advance(1);
    ///
    /// let full = buf.copy_to_bytes(10);
    /// assert_eq!(full, b"hello orld"[..]);
    /// ```
    pub fn last_mut(&mut self) -> &mut U {
        &mut self.b
    }

    /// Consumes this `Chain`, returning the underlying values.
    ///
    /// # Examples
    ///
    /// ```
    /// use bytes::Buf;
    ///
    /// let chain = (&b"hello"[..])
    ///     .chain(&b"world"[..]);
    ///
    /// let (first, last) = chain.into_inner();
    /// assert_eq!(first[..], b"hello"[..]);
    /// assert_eq!(last[..], b"world"[..]);
    /// ```
    pub fn into_inner(self) -> (T, U) {
        (self.a, self.b)
    }
}

impl<T, U> Buf for Chain<T, U>
where
    T: Buf,
    U: Buf,
{
    fn remaining(&self) -> usize {
        self.a.remaining().saturating_add(self.b.remaining())
    }

    fn chunk(&self) -> &[u8] {
        if self.a.has_remaining() {
            self.a.chunk()
        } else {
            self.b.chunk()
        }
    }

    fn advance(&mut self, mut cnt: usize) {
        let a_rem = self.a.remaining();

        if a_rem != 0 {
            if a_rem >= cnt {
                self.a.advance(cnt);
                return;
            }

            // Consume what is left of a
            self.a.advance(a_rem);

            cnt -= a_rem;
        }

        self.b.advance(cnt);
    }

    #[cfg(feature = "std")]
    fn chunks_vectored<'a>(&'a self, dst: &mut [IoSlice<'a>]) -> usize {
        let mut n = self.a.chunks_vectored(dst);
        n += self.b.chunks_vectored(&mut dst[n..]);
        n
    }

    fn copy_to_bytes(&mut self, len: usize) -> crate::Bytes {
        let a_rem = self.a.remaining();
        if a_rem >= len {
            self.a.copy_to_bytes(len)
        } else if a_rem == 0 {
            self.b.copy_to_bytes(len)
        } else {
            assert!(
                len - a_rem <= self.b.remaining(),
                "`len` greater than remaining"
            );
            let mut ret = crate::BytesMut::with_capacity(len);
            ret.put(&mut self.a);
            ret.put((&mut self.b).take(len - a_rem));
            ret.freeze()
        }
    }
}

unsafe impl<T, U> BufMut for Chain<T, U>
where
    T: BufMut,
    U: BufMut,
{
    fn remaining_mut(&self) -> usize {
        self.a
            .remaining_mut()
            .saturating_add(self.b.remaining_mut())
    }

    fn chunk_mut(&mut self) -> &mut UninitSlice {
        if self.a.has_remaining_mut() {
            self.a.chunk_mut()
        } else {
            self.b.chunk_mut()
        }
    }

    unsafe fn advance_mut(&mut self, mut cnt: usize) {
        let a_rem = self.a.remaining_mut();

        if a_rem != 0 {
            if a_rem >= cnt {
                self.a.advance_mut(cnt);
                return;
            }

            // Consume what is left of a
            self.a.advance_mut(a_rem);

            cnt -= a_rem;
        }

        self.b.advance_mut(cnt);
    }
}

impl<T, U> IntoIterator for Chain<T, U>
where
    T: Buf,
    U: Buf,
{
    type Item = u8;
    type IntoIter = IntoIter<Chain<T, U>>;

    fn into_iter(self) -> Self::IntoIter {
        IntoIter::new(self)
    }
}

#[cfg(feature = "std")]
use crate::buf::{reader, Reader};
use crate::buf::{take, Chain, Take};
#[cfg(feature = "std")]
use crate::{min_u64_usize, saturating_sub_usize_u64};
use crate::{panic_advance, panic_does_not_fit, TryGetError};

#[cfg(feature = "std")]
use std::io::IoSlice;

use alloc::boxed::Box;

macro_rules! buf_try_get_impl {
    ($this:ident, $typ:tt::$conv:tt) => {{
        const SIZE: usize = core::mem::size_of::<$typ>();

        if $this.remaining() < SIZE {
            return Err(TryGetError {
                requested: SIZE,
                available: $this.remaining(),
            });
        }

        // try to convert directly from the bytes
        // this Option<ret> trick is to avoid keeping a borrow on self
        // when advance() is called (mut borrow) and to call bytes() only once
        let ret = $this
            .chunk()
            .get(..SIZE)
            .map(|src| unsafe { $typ::$conv(*(src as *const _ as *const [_; SIZE])) });

        if let Some(ret) = ret {
            // if the direct conversion was possible, advance and return
            $this.advance(SIZE);
            return Ok(ret);
        } else {
            // if not we copy the bytes in a temp buffer then convert
            let mut buf = [0; SIZE];
            $this.copy_to_slice(&mut buf); // (do the advance)
            return Ok($typ::$conv(buf));
        }
    }};
    (le => $this:ident, $typ:tt, $len_to_read:expr) => {{
        const SIZE: usize = core::mem::size_of::<$typ>();

        // The same trick as above does not improve the best case speed.
        // It seems to be linked to the way the method is optimised by the compiler
        let mut buf = [0; SIZE];

        let subslice = match buf.get_mut(..$len_to_read) {
            Some(subslice) => subslice,
            None => panic_does_not_fit(SIZE, $len_to_read),
        };

        $this.try_copy_to_slice(subslice)?;
        return Ok($typ::from_le_bytes(buf));
    }};
    (be => $this:ident, $typ:tt, $len_to_read:expr) => {{
        const SIZE: usize = core::mem::size_of::<$typ>();

        let slice_at = match SIZE.checked_sub($len_to_read) {
            Some(slice_at) => slice_at,
            None => panic_does_not_fit(SIZE, $len_to_read),
        };

        let mut buf = [0; SIZE];
        $this.try_copy_to_slice(&mut buf[slice_at..])?;
        return Ok($typ::from_be_bytes(buf));
    }};
}

macro_rules! buf_get_impl {
    ($this:ident, $typ:tt::$conv:tt) => {{
        return (|| buf_try_get_impl!($this, $typ::$conv))()
            .unwrap_or_else(|error| panic_advance(&error));
    }};
    (le => $this:ident, $typ:tt, $len_to_read:expr) => {{
        return (|| buf_try_get_impl!(le => $this, $typ, $len_to_read))()
            .unwrap_or_else(|error| panic_advance(&error));
    }};
    (be => $this:ident, $typ:tt, $len_to_read:expr) => {{
        return (|| buf_try_get_impl!(be => $this, $typ, $len_to_read))()
            .unwrap_or_else(|error| panic_advance(&error));
    }};
}

// https://en.wikipedia.org/wiki/Sign_extension
fn sign_extend(val: u64, nbytes: usize) -> i64 {
    let shift = (8 - nbytes) * 8;
    (val << shift) as i64 >> shift
}

/// Read bytes from a buffer.
///
/// A buffer stores bytes in memory such that read operations are infallible.
/// The underlying storage may or may not be in contiguous memory. A `Buf` value
/// is a cursor into the buffer. Reading from `Buf` advances the cursor
/// position. It can be thought of as an efficient `Iterator` for collections of
/// bytes.
///
/// The simplest `Buf` is a `&[u8]`.
///
/// ```
/// use bytes::Buf;
///
/// let mut buf = &b"hello world"[..];
///
/// assert_eq!(b'h', buf.get_u8());
/// assert_eq!(b'e', buf.get_u8());
/// assert_eq!(b'l', buf.get_u8());
///
/// let mut rest = [0; 8];
/// buf.copy_to_slice(&mut rest);
///
/// assert_eq!(&rest[..], &b"lo world"[..]);
/// ```
pub trait Buf {
    /// Returns the number of bytes between the current position and the end of
    /// the buffer.
    ///
    /// This value is greater than or equal to the length of the slice returned
    /// by `chunk()`.
    ///
    /// # Examples
    ///
    /// ```
    /// use bytes::Buf;
    ///
    /// let mut buf = &b"hello world"[..];
    ///
    /// assert_eq!(buf.remaining(), 11);
    ///
    /// buf.get_u8();
    ///
    /// assert_eq!(buf.remaining(), 10);
    /// ```
    ///
    /// # Implementer notes
    ///
    /// Implementations of `remaining` should ensure that the return value does
    /// not change unless a call is made to `advance` or any other function that
    /// is documented to change the `Buf`'s current position.
    fn remaining(&self) -> usize;

    /// Returns a slice starting at the current position and of length between 0
    /// and `Buf::remaining()`. Note that this *can* return a shorter slice (this
    /// allows non-continuous internal representation).
    ///
    /// This is a lower level function. Most operations are done with other
    /// functions.
    ///
    /// # Examples
    ///
    /// ```
    /// use bytes::Buf;
    ///
    /// let mut buf = &b"hello world"[..];
    ///
    /// assert_eq!(buf.chunk(), &b"hello world"[..]);
    ///
    /// buf.advance(6);
    ///
    /// assert_eq!(buf.chunk(), &b"world"[..]);
    /// ```
    ///
    /// # Implementer notes
    ///
    /// This function should never panic. `chunk()` should return an empty
    /// slice **if and only if** `remaining()` returns 0. In other words,
    /// `chunk()` returning an empty slice implies that `remaining()` will
    /// return 0 and `remaining()` returning 0 implies that `chunk()` will
    /// return an empty slice.
    // The `chunk` method was previously called `bytes`. This alias makes the rename
    // more easily discoverable.
    #[cfg_attr(docsrs, doc(alias = "bytes"))]
    fn chunk(&self) -> &[u8];

    /// Fills `dst` with potentially multiple slices starting at `self`'s
    /// current position.
    ///
    /// If the `Buf` is backed by disjoint slices of bytes, `chunk_vectored` enables
    /// fetching more than one slice at once. `dst` is a slice of `IoSlice`
    /// references, enabling the slice to be directly used with [`writev`]
    /// without any further conversion. The sum of the lengths of all the
    /// buffers written to `dst` will be less than or equal to `Buf::remaining()`.
    ///
    /// The entries in `dst` will be overwritten, but the data **contained** by
    /// the slices **will not** be modified. The return value is the number of
    /// slices written to `dst`. If `Buf::remaining()` is non-zero, then this
    /// writes at least one non-empty slice to `dst`.
    ///
    /// This is a lower level function. Most operations are done with other
    /// functions.
    ///
    /// # Implementer notes
    ///
    /// This function should never panic. Once the end of the buffer is reached,
    /// i.e., `Buf::remaining` returns 0, calls to `chunk_vectored` must return 0
    /// without mutating `dst`.
    ///
    /// Implementations should also take care to properly handle being called
    /// with `dst` being a zero length slice.
    ///
    /// [`writev`]: http://man7.org/linux/man-pages/man2/readv.2.html
    #[cfg(feature = "std")]
    #[cfg_attr(docsrs, doc(cfg(feature = "std")))]
    fn chunks_vectored<'a>(&'a self, dst: &mut [IoSlice<'a>]) -> usize {
        if dst.is_empty() {
            return 0;
        }

        if self.has_remaining() {
            dst[0] = IoSlice::new(self.chunk());
            1
        } else {
            0
        }
    }

    /// Advance the internal cursor of the Buf
    ///
    /// The next call to `chunk()` will return a slice starting `cnt` bytes
    /// further into the underlying buffer.
    ///
    /// # Examples
    ///
    /// ```
    /// use bytes::Buf;
    ///
    /// let mut buf = &b"hello world"[..];
    ///
    /// assert_eq!(buf.chunk(), &b"hello world"[..]);
    ///
    /// buf.advance(6);
    ///
    /// assert_eq!(buf.chunk(), &b"world"[..]);
    /// ```
    ///
    /// # Panics
    ///
    /// This function **may** panic if `cnt > self.remaining()`.
    ///
    /// # Implementer notes
    ///
    /// It is recommended for implementations of `advance` to panic if `cnt >
    /// self.remaining()`. If the implementation does not panic, the call must
    /// behave as if `cnt == self.remaining()`.
    ///
    /// A call with `cnt == 0` should never panic and be a no-op.
    fn advance(&mut self, cnt: usize);

    /// Returns true if there are any more bytes to consume
    ///
    /// This is equivalent to `self.remaining() != 0`.
    ///
    /// # Examples
    ///
    /// ```
    /// use bytes::Buf;
    ///
    /// let mut buf = &b"a"[..];
    ///
    /// assert!(buf.has_remaining());
    ///
    /// buf.get_u8();
    ///
    /// assert!(!buf.has_remaining());
    /// ```
    fn has_remaining(&self) -> bool {
        self.remaining() > 0
    }

    /// Copies bytes from `self` into `dst`.
    ///
    /// The cursor is advanced by the number of bytes copied. `self` must have
    /// enough remaining bytes to fill `dst`.
    ///
    /// # Examples
    ///
    /// ```
    /// use bytes::Buf;
    ///
    /// let mut buf = &b"hello world"[..];
    /// let mut dst = [0; 5];
    ///
    /// buf.copy_to_slice(&mut dst);
    /// assert_eq!(&b"hello"[..], &dst);
    /// assert_eq!(6, buf.remaining());
    /// ```
    ///
    /// # Panics
    ///
    /// This function panics if `self.remaining() < dst.len()`.
    fn copy_to_slice(&mut self, dst: &mut [u8]) {
        self.try_copy_to_slice(dst)
            .unwrap_or_else(|error| panic_advance(&error));
    }

    /// Gets an unsigned 8 bit integer from `self`.
    ///
    /// The current position is advanced by 1.
    ///
    /// # Examples
    ///
    /// ```
    /// use bytes::Buf;
    ///
    /// let mut buf = &b"\x08 hello"[..];
    /// assert_eq!(8, buf.get_u8());
    /// ```
    ///
    /// # Panics
    ///
    /// This function panics if there is no more remaining data in `self`.
    fn get_u8(&mut self) -> u8 {
        if self.remaining() < 1 {
            panic_advance(&TryGetError {
                requested: 1,
                available: 0,
            })
        }
        let ret = self.chunk()[0];
        self.advance(1);
        ret
    }

    /// Gets a signed 8 bit integer from `self`.
    ///
    /// The current position is advanced by 1.
    ///
    /// # Examples
    ///
    /// ```
    /// use bytes::Buf;
    ///
    /// let mut buf = &b"\x08 hello"[..];
    /// assert_eq!(8, buf.get_i8());
    /// ```
    ///
    /// # Panics
    ///
    /// This function panics if there is no more remaining data in `self`.
    fn get_i8(&mut self) -> i8 {
        if self.remaining() < 1 {
            panic_advance(&TryGetError {
                requested: 1,
                available: 0,
            });
        }
        let ret = self.chunk()[0] as i8;
        self.advance(1);
        ret
    }

    /// Gets an unsigned 16 bit integer from `self` in big-endian byte order.
    ///
    /// The current position is advanced by 2.
    ///
    /// # Examples
    ///
    /// ```
    /// use bytes::Buf;
    ///
    /// let mut buf = &b"\x08\x09 hello"[..];
    /// assert_eq!(0x0809, buf.get_u16());
    /// ```
    ///
    /// # Panics
    ///
    /// This function panics if there is not enough remaining data in `self`.
    fn get_u16(&mut self) -> u16 {
        buf_get_impl!(self, u16::from_be_bytes);
    }

    /// Gets an unsigned 16 bit integer from `self` in little-endian byte order.
    ///
    /// The current position is advanced by 2.
    ///
    /// # Examples
    ///
    /// ```
    /// use bytes::Buf;
    ///
    /// let mut buf = &b"\x09\x08 hello"[..];
    /// assert_eq!(0x0809, buf.get_u16_le());
    /// ```
    ///
    /// # Panics
    ///
    /// This function panics if there is not enough remaining data in `self`.
    fn get_u16_le(&mut self) -> u16 {
        buf_get_impl!(self, u16::from_le_bytes);
    }

    /// Gets an unsigned 16 bit integer from `self` in native-endian byte order.
    ///
    /// The current position is advanced by 2.
    ///
    /// # Examples
    ///
    /// ```
    /// use bytes::Buf;
    ///
    /// let mut buf: &[u8] = match cfg!(target_endian = "big") {
    ///     true => b"\x08\x09 hello",
    ///     false => b"\x09\x08 hello",
    /// };
    /// assert_eq!(0x0809, buf.get_u16_ne());
    /// ```
    ///
    /// # Panics
    ///
    /// This function panics if there is not enough remaining data in `self`.
    fn get_u16_ne(&mut self) -> u16 {
        buf_get_impl!(self, u16::from_ne_bytes);
    }

    /// Gets a signed 16 bit integer from `self` in big-endian byte order.
    ///
    /// The current position is advanced by 2.
    ///
    /// # Examples
    ///
    /// ```
    /// use bytes::Buf;
    ///
    /// let mut buf = &b"\x08\x09 hello"[..];
    /// assert_eq!(0x0809, buf.get_i16());
    /// ```
    ///
    /// # Panics
    ///
    /// This function panics if there is not enough remaining data in `self`.
    fn get_i16(&mut self) -> i16 {
        buf_get_impl!(self, i16::from_be_bytes);
    }

    /// Gets a signed 16 bit integer from `self` in little-endian byte order.
    ///
    /// The current position is advanced by 2.
    ///
    /// # Examples
    ///
    /// ```
    /// use bytes::Buf;
    ///
    /// let mut buf = &b"\x09\x08 hello"[..];
    /// assert_eq!(0x0809, buf.get_i16_le());
    /// ```
    ///
    /// # Panics
    ///
    /// This function panics if there is not enough remaining data in `self`.
    fn get_i16_le(&mut self) -> i16 {
        buf_get_impl!(self, i16::from_le_bytes);
    }

    /// Gets a signed 16 bit integer from `self` in native-endian byte order.
    ///
    /// The current position is advanced by 2.
    ///
    /// # Examples
    ///
    /// ```
    /// use bytes::Buf;
    ///
    /// let mut buf: &[u8] = match cfg!(target_endian = "big") {
    ///     true => b"\x08\x09 hello",
    ///     false => b"\x09\x08 hello",
    /// };
    /// assert_eq!(0x0809, buf.get_i16_ne());
    /// ```
    ///
    /// # Panics
    ///
    /// This function panics if there is not enough remaining data in `self`.
    fn get_i16_ne(&mut self) -> i16 {
        buf_get_impl!(self, i16::from_ne_bytes);
    }

    /// Gets an unsigned 32 bit integer from `self` in the big-endian byte order.
    ///
    /// The current position is advanced by 4.
    ///
    /// # Examples
    ///
    /// ```
    /// use bytes::Buf;
    ///
    /// let mut buf = &b"\x08\x09\xA0\xA1 hello"[..];
    /// assert_eq!(0x0809A0A1, buf.get_u32());
    /// ```
    ///
    /// # Panics
    ///
    /// This function panics if there is not enough remaining data in `self`.
    fn get_u32(&mut self) -> u32 {
        buf_get_impl!(self, u32::from_be_bytes);
    }

    /// Gets an unsigned 32 bit integer from `self` in the little-endian byte order.
    ///
    /// The current position is advanced by 4.
    ///
    /// # Examples
    ///
    /// ```
    /// use bytes::Buf;
    ///
    /// let mut buf = &b"\xA1\xA0\x09\x08 hello"[..];
    /// assert_eq!(0x0809A0A1, buf.get_u32_le());
    /// ```
    ///
    /// # Panics
    ///
    /// This function panics if there is not enough remaining data in `self`.
    fn get_u32_le(&mut self) -> u32 {
        buf_get_impl!(self, u32::from_le_bytes);
    }

    /// Gets an unsigned 32 bit integer from `self` in native-endian byte order.
    ///
    /// The current position is advanced by 4.
    ///
    /// # Examples
    ///
    /// ```
    /// use bytes::Buf;
    ///
    /// let mut buf: &[u8] = match cfg!(target_endian = "big") {
    ///     true => b"\x08\x09\xA0\xA1 hello",
    ///     false => b"\xA1\xA0\x09\x08 hello",
    /// };
    /// assert_eq!(0x0809A0A1, buf.get_u32_ne());
    /// ```
    ///
    /// # Panics
    ///
    /// This function panics if there is not enough remaining data in `self`.
    fn get_u32_ne(&mut self) -> u32 {
        buf_get_impl!(self, u32::from_ne_bytes);
    }

    /// Gets a signed 32 bit integer from `self` in big-endian byte order.
    ///
    /// The current position is advanced by 4.
    ///
    /// # Examples
    ///
    /// ```
    /// use bytes::Buf;
    ///
    /// let mut buf = &b"\x08\x09\xA0\xA1 hello"[..];
    /// assert_eq!(0x0809A0A1, buf.get_i32());
    /// ```
    ///
    /// # Panics
    ///
    /// This function panics if there is not enough remaining data in `self`.
    fn get_i32(&mut self) -> i32 {
        buf_get_impl!(self, i32::from_be_bytes);
    }

    /// Gets a signed 32 bit integer from `self` in little-endian byte order.
    ///
    /// The current position is advanced by 4.
    ///
    /// # Examples
    ///
    /// ```
    /// use bytes::Buf;
    ///
    /// let mut buf = &b"\xA1\xA0\x09\x08 hello"[..];
    /// assert_eq!(0x0809A0A1, buf.get_i32_le());
    /// ```
    ///
    /// # Panics
    ///
    /// This function panics if there is not enough remaining data in `self`.
    fn get_i32_le(&mut self) -> i32 {
        buf_get_impl!(self, i32::from_le_bytes);
    }

    /// Gets a signed 32 bit integer from `self` in native-endian byte order.
    ///
    /// The current position is advanced by 4.
    ///
    /// # Examples
    ///
    /// ```
    /// use bytes::Buf;
    ///
    /// let mut buf: &[u8] = match cfg!(target_endian = "big") {
    ///     true => b"\x08\x09\xA0\xA1 hello",
    ///     false => b"\xA1\xA0\x09\x08 hello",
    /// };
    /// assert_eq!(0x0809A0A1, buf.get_i32_ne());
    /// ```
    ///
    /// # Panics
    ///
    /// This function panics if there is not enough remaining data in `self`.
    fn get_i32_ne(&mut self) -> i32 {
        buf_get_impl!(self, i32::from_ne_bytes);
    }

    /// Gets an unsigned 64 bit integer from `self` in big-endian byte order.
    ///
    /// The current position is advanced by 8.
    ///
    /// # Examples
    ///
    /// ```
    /// use bytes::Buf;
    ///
    /// let mut buf = &b"\x01\x02\x03\x04\x05\x06\x07\x08 hello"[..];
    /// assert_eq!(0x0102030405060708, buf.get_u64());
    /// ```
    ///
    /// # Panics
    ///
    /// This function panics if there is not enough remaining data in `self`.
    fn get_u64(&mut self) -> u64 {
        buf_get_impl!(self, u64::from_be_bytes);
    }

    /// Gets an unsigned 64 bit integer from `self` in little-endian byte order.
    ///
    /// The current position is advanced by 8.
    ///
    /// # Examples
    ///
    /// ```
    /// use bytes::Buf;
    ///
    /// let mut buf = &b"\x08\x07\x06\x05\x04\x03\x02\x01 hello"[..];
    /// assert_eq!(0x0102030405060708, buf.get_u64_le());
    /// ```
    ///
    /// # Panics
    ///
    /// This function panics if there is not enough remaining data in `self`.
    fn get_u64_le(&mut self) -> u64 {
        buf_get_impl!(self, u64::from_le_bytes);
    }

    /// Gets an unsigned 64 bit integer from `self` in native-endian byte order.
    ///
    /// The current position is advanced by 8.
    ///
    /// # Examples
    ///
    /// ```
    /// use bytes::Buf;
    ///
    /// let mut buf: &[u8] = match cfg!(target_endian = "big") {
    ///     true => b"\x01\x02\x03\x04\x05\x06\x07\x08 hello",
    ///     false => b"\x08\x07\x06\x05\x04\x03\x02\x01 hello",
    /// };
    /// assert_eq!(0x0102030405060708, buf.get_u64_ne());
    /// ```
    ///
    /// # Panics
    ///
    /// This function panics if there is not enough remaining data in `self`.
    fn get_u64_ne(&mut self) -> u64 {
        buf_get_impl!(self, u64::from_ne_bytes);
    }

    /// Gets a signed 64 bit integer from `self` in big-endian byte order.
    ///
    /// The current position is advanced by 8.
    ///
    /// # Examples
    ///
    /// ```
    /// use bytes::Buf;
    ///
    /// let mut buf = &b"\x01\x02\x03\x04\x05\x06\x07\x08 hello"[..];
    /// assert_eq!(0x0102030405060708, buf.get_i64());
    /// ```
    ///
    /// # Panics
    ///
    /// This function panics if there is not enough remaining data in `self`.
    fn get_i64(&mut self) -> i64 {
        buf_get_impl!(self, i64::from_be_bytes);
    }

    /// Gets a signed 64 bit integer from `self` in little-endian byte order.
    ///
    /// The current position is advanced by 8.
    ///
    /// # Examples
    ///
    /// ```
    /// use bytes::Buf;
    ///
    /// let mut buf = &b"\x08\x07\x06\x05\x04\x03\x02\x01 hello"[..];
    /// assert_eq!(0x0102030405060708, buf.get_i64_le());
    /// ```
    ///
    /// # Panics
    ///
    /// This function panics if there is not enough remaining data in `self`.
    fn get_i64_le(&mut self) -> i64 {
        buf_get_impl!(self, i64::from_le_bytes);
    }

    /// Gets a signed 64 bit integer from `self` in native-endian byte order.
    ///
    /// The current position is advanced by 8.
    ///
    /// # Examples
    ///
    /// ```
    /// use bytes::Buf;
    ///
    /// let mut buf: &[u8] = match cfg!(target_endian = "big") {
    ///     true => b"\x01\x02\x03\x04\x05\x06\x07\x08 hello",
    ///     false => b"\x08\x07\x06\x05\x04\x03\x02\x01 hello",
    /// };
    /// assert_eq!(0x0102030405060708, buf.get_i64_ne());
    /// ```
    ///
    /// # Panics
    ///
    /// This function panics if there is not enough remaining data in `self`.
    fn get_i64_ne(&mut self) -> i64 {
        buf_get_impl!(self, i64::from_ne_bytes);
    }

    /// Gets an unsigned 128 bit integer from `self` in big-endian byte order.
    ///
    /// The current position is advanced by 16.
    ///
    /// # Examples
    ///
    /// ```
    /// use bytes::Buf;
    ///
    /// let mut buf = &b"\x01\x02\x03\x04\x05\x06\x07\x08\x09\x10\x11\x12\x13\x14\x15\x16 hello"[..];
    /// assert_eq!(0x01020304050607080910111213141516, buf.get_u128());
    /// ```
    ///
    /// # Panics
    ///
    /// This function panics if there is not enough remaining data in `self`.
    fn get_u128(&mut self) -> u128 {
        buf_get_impl!(self, u128::from_be_bytes);
    }

    /// Gets an unsigned 128 bit integer from `self` in little-endian byte order.
    ///
    /// The current position is advanced by 16.
    ///
    /// # Examples
    ///
    /// ```
    /// use bytes::Buf;
    ///
    /// let mut buf = &b"\x16\x15\x14\x13\x12\x11\x10\x09\x08\x07\x06\x05\x04\x03\x02\x01 hello"[..];
    /// assert_eq!(0x01020304050607080910111213141516, buf.get_u128_le());
    /// ```
    ///
    /// # Panics
    ///
    /// This function panics if there is not enough remaining data in `self`.
    fn get_u128_le(&mut self) -> u128 {
        buf_get_impl!(self, u128::from_le_bytes);
    }

    /// Gets an unsigned 128 bit integer from `self` in native-endian byte order.
    ///
    /// The current position is advanced by 16.
    ///
    /// # Examples
    ///
    /// ```
    /// use bytes::Buf;
    ///
    /// let mut buf: &[u8] = match cfg!(target_endian = "big") {
    ///     true => b"\x01\x02\x03\x04\x05\x06\x07\x08\x09\x10\x11\x12\x13\x14\x15\x16 hello",
    ///     false => b"\x16\x15\x14\x13\x12\x11\x10\x09\x08\x07\x06\x05\x04\x03\x02\x01 hello",
    /// };
    /// assert_eq!(0x01020304050607080910111213141516, buf.get_u128_ne());
    /// ```
    ///
    /// # Panics
    ///
    /// This function panics if there is not enough remaining data in `self`.
    fn get_u128_ne(&mut self) -> u128 {
        buf_get_impl!(self, u128::from_ne_bytes);
    }

    /// Gets a signed 128 bit integer from `self` in big-endian byte order.
    ///
    /// The current position is advanced by 16.
    ///
    /// # Examples
    ///
    /// ```
    /// use bytes::Buf;
    ///
    /// let mut buf = &b"\x01\x02\x03\x04\x05\x06\x07\x08\x09\x10\x11\x12\x13\x14\x15\x16 hello"[..];
    /// assert_eq!(0x01020304050607080910111213141516, buf.get_i128());
    /// ```
    ///
    /// # Panics
    ///
    /// This function panics if there is not enough remaining data in `self`.
    fn get_i128(&mut self) -> i128 {
        buf_get_impl!(self, i128::from_be_bytes);
    }

    /// Gets a signed 128 bit integer from `self` in little-endian byte order.
    ///
    /// The current position is advanced by 16.
    ///
    /// # Examples
    ///
    /// ```
    /// use bytes::Buf;
    ///
    /// let mut buf = &b"\x16\x15\x14\x13\x12\x11\x10\x09\x08\x07\x06\x05\x04\x03\x02\x01 hello"[..];
    /// assert_eq!(0x01020304050607080910111213141516, buf.get_i128_le());
    /// ```
    ///
    /// # Panics
    ///
    /// This function panics if there is not enough remaining data in `self`.
    fn get_i128_le(&mut self) -> i128 {
        buf_get_impl!(self, i128::from_le_bytes);
    }

    /// Gets a signed 128 bit integer from `self` in native-endian byte order.
    ///
    /// The current position is advanced by 16.
    ///
    /// # Examples
    ///
    /// ```
    /// use bytes::Buf;
    ///
    /// let mut buf: &[u8] = match cfg!(target_endian = "big") {
    ///     true => b"\x01\x02\x03\x04\x05\x06\x07\x08\x09\x10\x11\x12\x13\x14\x15\x16 hello",
    ///     false => b"\x16\x15\x14\x13\x12\x11\x10\x09\x08\x07\x06\x05\x04\x03\x02\x01 hello",
    /// };
    /// assert_eq!(0x01020304050607080910111213141516, buf.get_i128_ne());
    /// ```
    ///
    /// # Panics
    ///
    /// This function panics if there is not enough remaining data in `self`.
    fn get_i128_ne(&mut self) -> i128 {
        buf_get_impl!(self, i128::from_ne_bytes);
    }

    /// Gets an unsigned n-byte integer from `self` in big-endian byte order.
    ///
    /// The current position is advanced by `nbytes`.
    ///
    /// # Examples
    ///
    /// ```
    /// use bytes::Buf;
    ///
    /// let mut buf = &b"\x01\x02\x03 hello"[..];
    /// assert_eq!(0x010203, buf.get_uint(3));
    /// ```
    ///
    /// # Panics
    ///
    /// This function panics if there is not enough remaining data in `self`, or
    /// if `nbytes` is greater than 8.
    fn get_uint(&mut self, nbytes: usize) -> u64 {
        buf_get_impl!(be => self, u64, nbytes);
    }

    /// Gets an unsigned n-byte integer from `self` in little-endian byte order.
    ///
    /// The current position is advanced by `nbytes`.
    ///
    /// # Examples
    ///
    /// ```
    /// use bytes::Buf;
    ///
    /// let mut buf = &b"\x03\x02\x01 hello"[..];
    /// assert_eq!(0x010203, buf.get_uint_le(3));
    /// ```
    ///
    /// # Panics
    ///
    /// This function panics if there is not enough remaining data in `self`, or
    /// if `nbytes` is greater than 8.
    fn get_uint_le(&mut self, nbytes: usize) -> u64 {
        buf_get_impl!(le => self, u64, nbytes);
    }

    /// Gets an unsigned n-byte integer from `self` in native-endian byte order.
    ///
    /// The current position is advanced by `nbytes`.
    ///
    /// # Examples
    ///
    /// ```
    /// use bytes::Buf;
    ///
    /// let mut buf: &[u8] = match cfg!(target_endian = "big") {
    ///     true => b"\x01\x02\x03 hello",
    ///     false => b"\x03\x02\x01 hello",
    /// };
    /// assert_eq!(0x010203, buf.get_uint_ne(3));
    /// ```
    ///
    /// # Panics
    ///
    /// This function panics if there is not enough remaining data in `self`, or
    /// if `nbytes` is greater than 8.
    fn get_uint_ne(&mut self, nbytes: usize) -> u64 {
        if cfg!(target_endian = "big") {
            self.get_uint(nbytes)
        } else {
            self.get_uint_le(nbytes)
        }
    }

    /// Gets a signed n-byte integer from `self` in big-endian byte order.
    ///
    /// The current position is advanced by `nbytes`.
    ///
    /// # Examples
    ///
    /// ```
    /// use bytes::Buf;
    ///
    /// let mut buf = &b"\x01\x02\x03 hello"[..];
    /// assert_eq!(0x010203, buf.get_int(3));
    /// ```
    ///
    /// # Panics
    ///
    /// This function panics if there is not enough remaining data in `self`, or
    /// if `nbytes` is greater than 8.
    fn get_int(&mut self, nbytes: usize) -> i64 {
        sign_extend(self.get_uint(nbytes), nbytes)
    }

    /// Gets a signed n-byte integer from `self` in little-endian byte order.
    ///
    /// The current position is advanced by `nbytes`.
    ///
    /// # Examples
    ///
    /// ```
    /// use bytes::Buf;
    ///
    /// let mut buf = &b"\x03\x02\x01 hello"[..];
    /// assert_eq!(0x010203, buf.get_int_le(3));
    /// ```
    ///
    /// # Panics
    ///
    /// This function panics if there is not enough remaining data in `self`, or
    /// if `nbytes` is greater than 8.
    fn get_int_le(&mut self, nbytes: usize) -> i64 {
        sign_extend(self.get_uint_le(nbytes), nbytes)
    }

    /// Gets a signed n-byte integer from `self` in native-endian byte order.
    ///
    /// The current position is advanced by `nbytes`.
    ///
    /// # Examples
    ///
    /// ```
    /// use bytes::Buf;
    ///
    /// let mut buf: &[u8] = match cfg!(target_endian = "big") {
    ///     true => b"\x01\x02\x03 hello",
    ///     false => b"\x03\x02\x01 hello",
    /// };
    /// assert_eq!(0x010203, buf.get_int_ne(3));
    /// ```
    ///
    /// # Panics
    ///
    /// This function panics if there is not enough remaining data in `self`, or
    /// if `nbytes` is greater than 8.
    fn get_int_ne(&mut self, nbytes: usize) -> i64 {
        if cfg!(target_endian = "big") {
            self.get_int(nbytes)
        } else {
            self.get_int_le(nbytes)
        }
    }

    /// Gets an IEEE754 single-precision (4 bytes) floating point number from
    /// `self` in big-endian byte order.
    ///
    /// The current position is advanced by 4.
    ///
    /// # Examples
    ///
    /// ```
    /// use bytes::Buf;
    ///
    /// let mut buf = &b"\x3F\x99\x99\x9A hello"[..];
    /// assert_eq!(1.2f32, buf.get_f32());
    /// ```
    ///
    /// # Panics
    ///
    /// This function panics if there is not enough remaining data in `self`.
    fn get_f32(&mut self) -> f32 {
        f32::from_bits(self.get_u32())
    }

    /// Gets an IEEE754 single-precision (4 bytes) floating point number from
    /// `self` in little-endian byte order.
    ///
    /// The current position is advanced by 4.
    ///
    /// # Examples
    ///
    /// ```
    /// use bytes::Buf;
    ///
    /// let mut buf = &b"\x9A\x99\x99\x3F hello"[..];
    /// assert_eq!(1.2f32, buf.get_f32_le());
    /// ```
    ///
    /// # Panics
    ///
    /// This function panics if there is not enough remaining data in `self`.
    fn get_f32_le(&mut self) -> f32 {
        f32::from_bits(self.get_u32_le())
    }

    /// Gets an IEEE754 single-precision (4 bytes) floating point number from
    /// `self` in native-endian byte order.
    ///
    /// The current position is advanced by 4.
    ///
    /// # Examples
    ///
    /// ```
    /// use bytes::Buf;
    ///
    /// let mut buf: &[u8] = match cfg!(target_endian = "big") {
    ///     true => b"\x3F\x99\x99\x9A hello",
    ///     false => b"\x9A\x99\x99\x3F hello",
    /// };
    /// assert_eq!(1.2f32, buf.get_f32_ne());
    /// ```
    ///
    /// # Panics
    ///
    /// This function panics if there is not enough remaining data in `self`.
    fn get_f32_ne(&mut self) -> f32 {
        f32::from_bits(self.get_u32_ne())
    }

    /// Gets an IEEE754 double-precision (8 bytes) floating point number from
    /// `self` in big-endian byte order.
    ///
    /// The current position is advanced by 8.
    ///
    /// # Examples
    ///
    /// ```
    /// use bytes::Buf;
    ///
    /// let mut buf = &b"\x3F\xF3\x33\x33\x33\x33\x33\x33 hello"[..];
    /// assert_eq!(1.2f64, buf.get_f64());
    /// ```
    ///
    /// # Panics
    ///
    /// This function panics if there is not enough remaining data in `self`.
    fn get_f64(&mut self) -> f64 {
        f64::from_bits(self.get_u64())
    }

    /// Gets an IEEE754 double-precision (8 bytes) floating point number from
    /// `self` in little-endian byte order.
    ///
    /// The current position is advanced by 8.
    ///
    /// # Examples
    ///
    /// ```
    /// use bytes::Buf;
    ///
    /// let mut buf = &b"\x33\x33\x33\x33\x33\x33\xF3\x3F hello"[..];
    /// assert_eq!(1.2f64, buf.get_f64_le());
    /// ```
    ///
    /// # Panics
    ///
    /// This function panics if there is not enough remaining data in `self`.
    fn get_f64_le(&mut self) -> f64 {
        f64::from_bits(self.get_u64_le())
    }

    /// Gets an IEEE754 double-precision (8 bytes) floating point number from
    /// `self` in native-endian byte order.
    ///
    /// The current position is advanced by 8.
    ///
    /// # Examples
    ///
    /// ```
    /// use bytes::Buf;
    ///
    /// let mut buf: &[u8] = match cfg!(target_endian = "big") {
    ///     true => b"\x3F\xF3\x33\x33\x33\x33\x33\x33 hello",
    ///     false => b"\x33\x33\x33\x33\x33\x33\xF3\x3F hello",
    /// };
    /// assert_eq!(1.2f64, buf.get_f64_ne());
    /// ```
    ///
    /// # Panics
    ///
    /// This function panics if there is not enough remaining data in `self`.
    fn get_f64_ne(&mut self) -> f64 {
        f64::from_bits(self.get_u64_ne())
    }

    /// Copies bytes from `self` into `dst`.
    ///
    /// The cursor is advanced by the number of bytes copied. `self` must have
    /// enough remaining bytes to fill `dst`.
    ///
    /// Returns `Err(TryGetError)` when there are not enough
    /// remaining bytes to read the value.
    ///
    /// # Examples
    ///
    /// ```
    /// use bytes::Buf;
    ///
    /// let mut buf = &b"hello world"[..];
    /// let mut dst = [0; 5];
    ///
    /// assert_eq!(Ok(()), buf.try_copy_to_slice(&mut dst));
    /// assert_eq!(&b"hello"[..], &dst);
    /// assert_eq!(6, buf.remaining());
    /// ```
    ///
    /// ```
    /// use bytes::{Buf, TryGetError};
    ///
    /// let mut buf = &b"hello world"[..];
    /// let mut dst = [0; 12];
    ///
    /// assert_eq!(Err(TryGetError{requested: 12, available: 11}), buf.try_copy_to_slice(&mut dst));
    /// assert_eq!(11, buf.remaining());
    /// ```
    fn try_copy_to_slice(&mut self, mut dst: &mut [u8]) -> Result<(), TryGetError> {
        if self.remaining() < dst.len() {
            return Err(TryGetError {
                requested: dst.len(),
                available: self.remaining(),
            });
        }

        while !dst.is_empty() {
            let src = self.chunk();
            let cnt = usize::min(src.len(), dst.len());

            dst[..cnt].copy_from_slice(&src[..cnt]);
            dst = &mut dst[cnt..];

            self.advance(cnt);
        }
        Ok(())
    }

    /// Gets an unsigned 8 bit integer from `self`.
    ///
    /// The current position is advanced by 1.
    ///
    /// Returns `Err(TryGetError)` when there are not enough
    /// remaining bytes to read the value.
    ///
    /// # Examples
    ///
    /// ```
    /// use bytes::Buf;
    ///
    /// let mut buf = &b"\x08 hello"[..];
    /// assert_eq!(Ok(0x08_u8), buf.try_get_u8());
    /// assert_eq!(6, buf.remaining());
    /// ```
    ///
    /// ```
    /// use bytes::{Buf, TryGetError};
    ///
    /// let mut buf = &b""[..];
    /// assert_eq!(Err(TryGetError{requested: 1, available: 0}), buf.try_get_u8());
    /// ```
    fn try_get_u8(&mut self) -> Result<u8, TryGetError> {
        if self.remaining() < 1 {
            return Err(TryGetError {
                requested: 1,
                available: self.remaining(),
            });
        }
        let ret = self.chunk()[0];
        self.advance(1);
        Ok(ret)
    }

    /// Gets a signed 8 bit integer from `self`.
    ///
    /// The current position is advanced by 1.
    ///
    /// Returns `Err(TryGetError)` when there are not enough
    /// remaining bytes to read the value.
    ///
    /// # Examples
    ///
    /// ```
    /// use bytes::Buf;
    ///
    /// let mut buf = &b"\x08 hello"[..];
    /// assert_eq!(Ok(0x08_i8), buf.try_get_i8());
    /// assert_eq!(6, buf.remaining());
    /// ```
    ///
    /// ```
    /// use bytes::{Buf, TryGetError};
    ///
    /// let mut buf = &b""[..];
    /// assert_eq!(Err(TryGetError{requested: 1, available: 0}), buf.try_get_i8());
    /// ```
    fn try_get_i8(&mut self) -> Result<i8, TryGetError> {
        if self.remaining() < 1 {
            return Err(TryGetError {
                requested: 1,
                available: self.remaining(),
            });
        }
        let ret = self.chunk()[0] as i8;
        self.advance(1);
        Ok(ret)
    }

    /// Gets an unsigned 16 bit integer from `self` in big-endian byte order.
    ///
    /// The current position is advanced by 2.
    ///
    /// Returns `Err(TryGetError)` when there are not enough
    /// remaining bytes to read the value.
    ///
    /// # Examples
    ///
    /// ```
    /// use bytes::Buf;
    ///
    /// let mut buf = &b"\x08\x09 hello"[..];
    /// assert_eq!(Ok(0x0809_u16), buf.try_get_u16());
    /// assert_eq!(6, buf.remaining());
    /// ```
    ///
    /// ```
    /// use bytes::{Buf, TryGetError};
    ///
    /// let mut buf = &b"\x08"[..];
    /// assert_eq!(Err(TryGetError{requested: 2, available: 1}), buf.try_get_u16());
    /// assert_eq!(1, buf.remaining());
    /// ```
    fn try_get_u16(&mut self) -> Result<u16, TryGetError> {
        buf_try_get_impl!(self, u16::from_be_bytes)
    }

    /// Gets an unsigned 16 bit integer from `self` in little-endian byte order.
    ///
    /// The current position is advanced by 2.
    ///
    /// Returns `Err(TryGetError)` when there are not enough
    /// remaining bytes to read the value.
    ///
    /// # Examples
    ///
    /// ```
    /// use bytes::Buf;
    ///
    /// let mut buf = &b"\x09\x08 hello"[..];
    /// assert_eq!(Ok(0x0809_u16), buf.try_get_u16_le());
    /// assert_eq!(6, buf.remaining());
    /// ```
    ///
    /// ```
    /// use bytes::{Buf, TryGetError};
    ///
    /// let mut buf = &b"\x08"[..];
    /// assert_eq!(Err(TryGetError{requested: 2, available: 1}), buf.try_get_u16_le());
    /// assert_eq!(1, buf.remaining());
    /// ```
    fn try_get_u16_le(&mut self) -> Result<u16, TryGetError> {
        buf_try_get_impl!(self, u16::from_le_bytes)
    }

    /// Gets an unsigned 16 bit integer from `self` in native-endian byte order.
    ///
    /// The current position is advanced by 2.
    ///
    /// Returns `Err(TryGetError)` when there are not enough
    /// remaining bytes to read the value.
    ///
    /// # Examples
    ///
    /// ```
    /// use bytes::Buf;
    ///
    /// let mut buf: &[u8] = match cfg!(target_endian = "big") {
    ///     true => b"\x08\x09 hello",
    ///     false => b"\x09\x08 hello",
    /// };
    /// assert_eq!(Ok(0x0809_u16), buf.try_get_u16_ne());
    /// assert_eq!(6, buf.remaining());
    /// ```
    ///
    /// ```
    /// use bytes::{Buf, TryGetError};
    ///
    /// let mut buf = &b"\x08"[..];
    /// assert_eq!(Err(TryGetError{requested: 2, available: 1}), buf.try_get_u16_ne());
    /// assert_eq!(1, buf.remaining());
    /// ```
    fn try_get_u16_ne(&mut self) -> Result<u16, TryGetError> {
        buf_try_get_impl!(self, u16::from_ne_bytes)
    }

    /// Gets a signed 16 bit integer from `self` in big-endian byte order.
    ///
    /// The current position is advanced by 2.
    ///
    /// Returns `Err(TryGetError)` when there are not enough
    /// remaining bytes to read the value.
    ///
    /// # Examples
    ///
    /// ```
    /// use bytes::Buf;
    ///
    /// let mut buf = &b"\x08\x09 hello"[..];
    /// assert_eq!(Ok(0x0809_i16), buf.try_get_i16());
    /// assert_eq!(6, buf.remaining());
    /// ```
    ///
    /// ```
    /// use bytes::{Buf, TryGetError};
    ///
    /// let mut buf = &b"\x08"[..];
    /// assert_eq!(Err(TryGetError{requested: 2, available: 1}), buf.try_get_i16());
    /// assert_eq!(1, buf.remaining());
    /// ```
    fn try_get_i16(&mut self) -> Result<i16, TryGetError> {
        buf_try_get_impl!(self, i16::from_be_bytes)
    }

    /// Gets an signed 16 bit integer from `self` in little-endian byte order.
    ///
    /// The current position is advanced by 2.
    ///
    /// Returns `Err(TryGetError)` when there are not enough
    /// remaining bytes to read the value.
    ///
    /// # Examples
    ///
    /// ```
    /// use bytes::Buf;
    ///
    /// let mut buf = &b"\x09\x08 hello"[..];
    /// assert_eq!(Ok(0x0809_i16), buf.try_get_i16_le());
    /// assert_eq!(6, buf.remaining());
    /// ```
    ///
    /// ```
    /// use bytes::{Buf, TryGetError};
    ///
    /// let mut buf = &b"\x08"[..];
    /// assert_eq!(Err(TryGetError{requested: 2, available: 1}), buf.try_get_i16_le());
    /// assert_eq!(1, buf.remaining());
    /// ```
    fn try_get_i16_le(&mut self) -> Result<i16, TryGetError> {
        buf_try_get_impl!(self, i16::from_le_bytes)
    }

    /// Gets a signed 16 bit integer from `self` in native-endian byte order.
    ///
    /// The current position is advanced by 2.
    ///
    /// Returns `Err(TryGetError)` when there are not enough
    /// remaining bytes to read the value.
    ///
    /// # Examples
    ///
    /// ```
    /// use bytes::Buf;
    ///
    /// let mut buf: &[u8] = match cfg!(target_endian = "big") {
    ///     true => b"\x08\x09 hello",
    ///     false => b"\x09\x08 hello",
    /// };
    /// assert_eq!(Ok(0x0809_i16), buf.try_get_i16_ne());
    /// assert_eq!(6, buf.remaining());
    /// ```
    ///
    /// ```
    /// use bytes::{Buf, TryGetError};
    ///
    /// let mut buf = &b"\x08"[..];
    /// assert_eq!(Err(TryGetError{requested: 2, available: 1}), buf.try_get_i16_ne());
    /// assert_eq!(1, buf.remaining());
    /// ```
    fn try_get_i16_ne(&mut self) -> Result<i16, TryGetError> {
        buf_try_get_impl!(self, i16::from_ne_bytes)
    }

    /// Gets an unsigned 32 bit integer from `self` in big-endian byte order.
    ///
    /// The current position is advanced by 4.
    ///
    /// Returns `Err(TryGetError)` when there are not enough
    /// remaining bytes to read the value.
    ///
    /// # Examples
    ///
    /// ```
    /// use bytes::Buf;
    ///
    /// let mut buf = &b"\x08\x09\xA0\xA1 hello"[..];
    /// assert_eq!(Ok(0x0809A0A1), buf.try_get_u32());
    /// assert_eq!(6, buf.remaining());
    /// ```
    ///
    /// ```
    /// use bytes::{Buf, TryGetError};
    ///
    /// let mut buf = &b"\x01\x02\x03"[..];
    /// assert_eq!(Err(TryGetError{requested: 4, available: 3}), buf.try_get_u32());
    /// assert_eq!(3, buf.remaining());
    /// ```
    fn try_get_u32(&mut self) -> Result<u32, TryGetError> {
        buf_try_get_impl!(self, u32::from_be_bytes)
    }

    /// Gets an unsigned 32 bit integer from `self` in little-endian byte order.
    ///
    /// The current position is advanced by 4.
    ///
    /// Returns `Err(TryGetError)` when there are not enough
    /// remaining bytes to read the value.
    ///
    /// # Examples
    ///
    /// ```
    /// use bytes::Buf;
    ///
    /// let mut buf = &b"\xA1\xA0\x09\x08 hello"[..];
    /// assert_eq!(Ok(0x0809A0A1_u32), buf.try_get_u32_le());
    /// assert_eq!(6, buf.remaining());
    /// ```
    ///
    /// ```
    /// use bytes::{Buf, TryGetError};
    ///
    /// let mut buf = &b"\x08\x09\xA0"[..];
    /// assert_eq!(Err(TryGetError{requested: 4, available: 3}), buf.try_get_u32_le());
    /// assert_eq!(3, buf.remaining());
    /// ```
    fn try_get_u32_le(&mut self) -> Result<u32, TryGetError> {
        buf_try_get_impl!(self, u32::from_le_bytes)
    }

    /// Gets an unsigned 32 bit integer from `self` in native-endian byte order.
    ///
    /// The current position is advanced by 4.
    ///
    /// Returns `Err(TryGetError)` when there are not enough
    /// remaining bytes to read the value.
    ///
    /// # Examples
    ///
    /// ```
    /// use bytes::Buf;
    ///
    /// let mut buf: &[u8] = match cfg!(target_endian = "big") {
    ///     true => b"\x08\x09\xA0\xA1 hello",
    ///     false => b"\xA1\xA0\x09\x08 hello",
    /// };
    /// assert_eq!(Ok(0x0809A0A1_u32), buf.try_get_u32_ne());
    /// assert_eq!(6, buf.remaining());
    /// ```
    ///
    /// ```
    /// use bytes::{Buf, TryGetError};
    ///
    /// let mut buf = &b"\x08\x09\xA0"[..];
    /// assert_eq!(Err(TryGetError{requested: 4, available: 3}), buf.try_get_u32_ne());
    /// assert_eq!(3, buf.remaining());
    /// ```
    fn try_get_u32_ne(&mut self) -> Result<u32, TryGetError> {
        buf_try_get_impl!(self, u32::from_ne_bytes)
    }

    /// Gets a signed 32 bit integer from `self` in big-endian byte order.
    ///
    /// The current position is advanced by 4.
    ///
    /// Returns `Err(TryGetError)` when there are not enough
    /// remaining bytes to read the value.
    ///
    /// # Examples
    ///
    /// ```
    /// use bytes::Buf;
    ///
    /// let mut buf = &b"\x08\x09\xA0\xA1 hello"[..];
    /// assert_eq!(Ok(0x0809A0A1_i32), buf.try_get_i32());
    /// assert_eq!(6, buf.remaining());
    /// ```
    ///
    /// ```
    /// use bytes::{Buf, TryGetError};
    ///
    /// let mut buf = &b"\x01\x02\x03"[..];
    /// assert_eq!(Err(TryGetError{requested: 4, available: 3}), buf.try_get_i32());
    /// assert_eq!(3, buf.remaining());
    /// ```
    fn try_get_i32(&mut self) -> Result<i32, TryGetError> {
        buf_try_get_impl!(self, i32::from_be_bytes)
    }

    /// Gets a signed 32 bit integer from `self` in little-endian byte order.
    ///
    /// The current position is advanced by 4.
    ///
    /// Returns `Err(TryGetError)` when there are not enough
    /// remaining bytes to read the value.
    ///
    /// # Examples
    ///
    /// ```
    /// use bytes::Buf;
    ///
    /// let mut buf = &b"\xA1\xA0\x09\x08 hello"[..];
    /// assert_eq!(Ok(0x0809A0A1_i32), buf.try_get_i32_le());
    /// assert_eq!(6, buf.remaining());
    /// ```
    ///
    /// ```
    /// use bytes::{Buf, TryGetError};
    ///
    /// let mut buf = &b"\x08\x09\xA0"[..];
    /// assert_eq!(Err(TryGetError{requested: 4, available: 3}), buf.try_get_i32_le());
    /// assert_eq!(3, buf.remaining());
    /// ```
    fn try_get_i32_le(&mut self) -> Result<i32, TryGetError> {
        buf_try_get_impl!(self, i32::from_le_bytes)
    }

    /// Gets a signed 32 bit integer from `self` in native-endian byte order.
    ///
    /// The current position is advanced by 4.
    ///
    /// Returns `Err(TryGetError)` when there are not enough
    /// remaining bytes to read the value.
    ///
    /// # Examples
    ///
    /// ```
    /// use bytes::Buf;
    ///
    /// let mut buf: &[u8] = match cfg!(target_endian = "big") {
    ///     true => b"\x08\x09\xA0\xA1 hello",
    ///     false => b"\xA1\xA0\x09\x08 hello",
    /// };
    /// assert_eq!(Ok(0x0809A0A1_i32), buf.try_get_i32_ne());
    /// assert_eq!(6, buf.remaining());
    /// ```
    ///
    /// ```
    /// use bytes::{Buf, TryGetError};
    ///
    /// let mut buf = &b"\x08\x09\xA0"[..];
    /// assert_eq!(Err(TryGetError{requested: 4, available: 3}), buf.try_get_i32_ne());
    /// assert_eq!(3, buf.remaining());
    /// ```
    fn try_get_i32_ne(&mut self) -> Result<i32, TryGetError> {
        buf_try_get_impl!(self, i32::from_ne_bytes)
    }

    /// Gets an unsigned 64 bit integer from `self` in big-endian byte order.
    ///
    /// The current position is advanced by 8.
    ///
    /// Returns `Err(TryGetError)` when there are not enough
    /// remaining bytes to read the value.
    ///
    /// # Examples
    ///
    /// ```
    /// use bytes::Buf;
    ///
    /// let mut buf = &b"\x01\x02\x03\x04\x05\x06\x07\x08 hello"[..];
    /// assert_eq!(Ok(0x0102030405060708_u64), buf.try_get_u64());
    /// assert_eq!(6, buf.remaining());
    /// ```
    ///
    /// ```
    /// use bytes::{Buf, TryGetError};
    ///
    /// let mut buf = &b"\x01\x02\x03\x04\x05\x06\x07"[..];
    /// assert_eq!(Err(TryGetError{requested: 8, available: 7}), buf.try_get_u64());
    /// assert_eq!(7, buf.remaining());
    /// ```
    fn try_get_u64(&mut self) -> Result<u64, TryGetError> {
        buf_try_get_impl!(self, u64::from_be_bytes)
    }

    /// Gets an unsigned 64 bit integer from `self` in little-endian byte order.
    ///
    /// The current position is advanced by 8.
    ///
    /// Returns `Err(TryGetError)` when there are not enough
    /// remaining bytes to read the value.
    ///
    /// # Examples
    ///
    /// ```
    /// use bytes::Buf;
    ///
    /// let mut buf = &b"\x08\x07\x06\x05\x04\x03\x02\x01 hello"[..];
    /// assert_eq!(Ok(0x0102030405060708_u64), buf.try_get_u64_le());
    /// assert_eq!(6, buf.remaining());
    /// ```
    ///
    /// ```
    /// use bytes::{Buf, TryGetError};
    ///
    /// let mut buf = &b"\x08\x07\x06\x05\x04\x03\x02"[..];
    /// assert_eq!(Err(TryGetError{requested: 8, available: 7}), buf.try_get_u64_le());
    /// assert_eq!(7, buf.remaining());
    /// ```
    fn try_get_u64_le(&mut self) -> Result<u64, TryGetError> {
        buf_try_get_impl!(self, u64::from_le_bytes)
    }

    /// Gets an unsigned 64 bit integer from `self` in native-endian byte order.
    ///
    /// The current position is advanced by 8.
    ///
    /// Returns `Err(TryGetError)` when there are not enough
    /// remaining bytes to read the value.
    ///
    /// # Examples
    ///
    /// ```
    /// use bytes::Buf;
    ///
    /// let mut buf: &[u8] = match cfg!(target_endian = "big") {
    ///     true => b"\x01\x02\x03\x04\x05\x06\x07\x08 hello",
    ///     false => b"\x08\x07\x06\x05\x04\x03\x02\x01 hello",
    /// };
    /// assert_eq!(Ok(0x0102030405060708_u64), buf.try_get_u64_ne());
    /// assert_eq!(6, buf.remaining());
    /// ```
    ///
    /// ```
    /// use bytes::{Buf, TryGetError};
    ///
    /// let mut buf = &b"\x01\x02\x03\x04\x05\x06\x07"[..];
    /// assert_eq!(Err(TryGetError{requested: 8, available: 7}), buf.try_get_u64_ne());
    /// assert_eq!(7, buf.remaining());
    /// ```
    fn try_get_u64_ne(&mut self) -> Result<u64, TryGetError> {
        buf_try_get_impl!(self, u64::from_ne_bytes)
    }

    /// Gets a signed 64 bit integer from `self` in big-endian byte order.
    ///
    /// The current position is advanced by 8.
    ///
    /// Returns `Err(TryGetError)` when there are not enough
    /// remaining bytes to read the value.
    ///
    /// # Examples
    ///
    /// ```
    /// use bytes::Buf;
    ///
    /// let mut buf = &b"\x01\x02\x03\x04\x05\x06\x07\x08 hello"[..];
    /// assert_eq!(Ok(0x0102030405060708_i64), buf.try_get_i64());
    /// assert_eq!(6, buf.remaining());
    /// ```
    ///
    /// ```
    /// use bytes::{Buf, TryGetError};
    ///
    /// let mut buf = &b"\x01\x02\x03\x04\x05\x06\x07"[..];
    /// assert_eq!(Err(TryGetError{requested: 8, available: 7}), buf.try_get_i64());
    /// assert_eq!(7, buf.remaining());
    /// ```
    fn try_get_i64(&mut self) -> Result<i64, TryGetError> {
        buf_try_get_impl!(self, i64::from_be_bytes)
    }

    /// Gets a signed 64 bit integer from `self` in little-endian byte order.
    ///
    /// The current position is advanced by 8.
    ///
    /// Returns `Err(TryGetError)` when there are not enough
    /// remaining bytes to read the value.
    ///
    /// # Examples
    ///
    /// ```
    /// use bytes::Buf;
    ///
    /// let mut buf = &b"\x08\x07\x06\x05\x04\x03\x02\x01 hello"[..];
    /// assert_eq!(Ok(0x0102030405060708_i64), buf.try_get_i64_le());
    /// assert_eq!(6, buf.remaining());
    /// ```
    ///
    /// ```
    /// use bytes::{Buf, TryGetError};
    ///
    /// let mut buf = &b"\x08\x07\x06\x05\x04\x03\x02"[..];
    /// assert_eq!(Err(TryGetError{requested: 8, available: 7}), buf.try_get_i64_le());
    /// assert_eq!(7, buf.remaining());
    /// ```
    fn try_get_i64_le(&mut self) -> Result<i64, TryGetError> {
        buf_try_get_impl!(self, i64::from_le_bytes)
    }

    /// Gets a signed 64 bit integer from `self` in native-endian byte order.
    ///
    /// The current position is advanced by 8.
    ///
    /// Returns `Err(TryGetError)` when there are not enough
    /// remaining bytes to read the value.
    ///
    /// # Examples
    ///
    /// ```
    /// use bytes::Buf;
    ///
    /// let mut buf: &[u8] = match cfg!(target_endian = "big") {
    ///     true => b"\x01\x02\x03\x04\x05\x06\x07\x08 hello",
    ///     false => b"\x08\x07\x06\x05\x04\x03\x02\x01 hello",
    /// };
    /// assert_eq!(Ok(0x0102030405060708_i64), buf.try_get_i64_ne());
    /// assert_eq!(6, buf.remaining());
    /// ```
    ///
    /// ```
    /// use bytes::{Buf, TryGetError};
    ///
    /// let mut buf = &b"\x01\x02\x03\x04\x05\x06\x07"[..];
    /// assert_eq!(Err(TryGetError{requested: 8, available: 7}), buf.try_get_i64_ne());
    /// assert_eq!(7, buf.remaining());
    /// ```
    fn try_get_i64_ne(&mut self) -> Result<i64, TryGetError> {
        buf_try_get_impl!(self, i64::from_ne_bytes)
    }

    /// Gets an unsigned 128 bit integer from `self` in big-endian byte order.
    ///
    /// The current position is advanced by 16.
    ///
    /// Returns `Err(TryGetError)` when there are not enough
    /// remaining bytes to read the value.
    ///
    /// # Examples
    ///
    /// ```
    /// use bytes::Buf;
    ///
    /// let mut buf = &b"\x01\x02\x03\x04\x05\x06\x07\x08\x09\x10\x11\x12\x13\x14\x15\x16 hello"[..];
    /// assert_eq!(Ok(0x01020304050607080910111213141516_u128), buf.try_get_u128());
    /// assert_eq!(6, buf.remaining());
    /// ```
    ///
    /// ```
    /// use bytes::{Buf, TryGetError};
    ///
    /// let mut buf = &b"\x01\x02\x03\x04\x05\x06\x07\x08\x09\x10\x11\x12\x13\x14\x15"[..];
    /// assert_eq!(Err(TryGetError{requested: 16, available: 15}), buf.try_get_u128());
    /// assert_eq!(15, buf.remaining());
    /// ```
    fn try_get_u128(&mut self) -> Result<u128, TryGetError> {
        buf_try_get_impl!(self, u128::from_be_bytes)
    }

    /// Gets an unsigned 128 bit integer from `self` in little-endian byte order.
    ///
    /// The current position is advanced by 16.
    ///
    /// Returns `Err(TryGetError)` when there are not enough
    /// remaining bytes to read the value.
    ///
    /// # Examples
    ///
    /// ```
    /// use bytes::Buf;
    ///
    /// let mut buf = &b"\x16\x15\x14\x13\x12\x11\x10\x09\x08\x07\x06\x05\x04\x03\x02\x01 hello"[..];
    /// assert_eq!(Ok(0x01020304050607080910111213141516_u128), buf.try_get_u128_le());
    /// assert_eq!(6, buf.remaining());
    /// ```
    ///
    /// ```
    /// use bytes::{Buf, TryGetError};
    ///
    /// let mut buf = &b"\x16\x15\x14\x13\x12\x11\x10\x09\x08\x07\x06\x05\x04\x03\x02"[..];
    /// assert_eq!(Err(TryGetError{requested: 16, available: 15}), buf.try_get_u128_le());
    /// assert_eq!(15, buf.remaining());
    /// ```
    fn try_get_u128_le(&mut self) -> Result<u128, TryGetError> {
        buf_try_get_impl!(self, u128::from_le_bytes)
    }

    /// Gets an unsigned 128 bit integer from `self` in native-endian byte order.
    ///
    /// The current position is advanced by 16.
    ///
    /// Returns `Err(TryGetError)` when there are not enough
    /// remaining bytes to read the value.
    ///
    /// # Examples
    ///
    /// ```
    /// use bytes::Buf;
    ///
    /// let mut buf: &[u8] = match cfg!(target_endian = "big") {
    ///     true => b"\x01\x02\x03\x04\x05\x06\x07\x08\x09\x10\x11\x12\x13\x14\x15\x16 hello",
    ///     false => b"\x16\x15\x14\x13\x12\x11\x10\x09\x08\x07\x06\x05\x04\x03\x02\x01 hello",
    /// };
    /// assert_eq!(Ok(0x01020304050607080910111213141516_u128), buf.try_get_u128_ne());
    /// assert_eq!(6, buf.remaining());
    /// ```
    ///
    /// ```
    /// use bytes::{Buf, TryGetError};
    ///
    /// let mut buf = &b"\x01\x02\x03\x04\x05\x06\x07\x08\x09\x10\x11\x12\x13\x14\x15"[..];
    /// assert_eq!(Err(TryGetError{requested: 16, available: 15}), buf.try_get_u128_ne());
    /// assert_eq!(15, buf.remaining());
    /// ```
    fn try_get_u128_ne(&mut self) -> Result<u128, TryGetError> {
        buf_try_get_impl!(self, u128::from_ne_bytes)
    }

    /// Gets a signed 128 bit integer from `self` in big-endian byte order.
    ///
    /// The current position is advanced by 16.
    ///
    /// Returns `Err(TryGetError)` when there are not enough
    /// remaining bytes to read the value.
    ///
    /// # Examples
    ///
    /// ```
    /// use bytes::Buf;
    ///
    /// let mut buf = &b"\x01\x02\x03\x04\x05\x06\x07\x08\x09\x10\x11\x12\x13\x14\x15\x16 hello"[..];
    /// assert_eq!(Ok(0x01020304050607080910111213141516_i128), buf.try_get_i128());
    /// assert_eq!(6, buf.remaining());
    /// ```
    ///
    /// ```
    /// use bytes::{Buf, TryGetError};
    ///
    /// let mut buf = &b"\x01\x02\x03\x04\x05\x06\x07\x08\x09\x10\x11\x12\x13\x14\x15"[..];
    /// assert_eq!(Err(TryGetError{requested: 16, available: 15}), buf.try_get_i128());
    /// assert_eq!(15, buf.remaining());
    /// ```
    fn try_get_i128(&mut self) -> Result<i128, TryGetError> {
        buf_try_get_impl!(self, i128::from_be_bytes)
    }

    /// Gets a signed 128 bit integer from `self` in little-endian byte order.
    ///
    /// The current position is advanced by 16.
    ///
    /// Returns `Err(TryGetError)` when there are not enough
    /// remaining bytes to read the value.
    ///
    /// # Examples
    ///
    /// ```
    /// use bytes::Buf;
    ///
    /// let mut buf = &b"\x16\x15\x14\x13\x12\x11\x10\x09\x08\x07\x06\x05\x04\x03\x02\x01 hello"[..];
    /// assert_eq!(Ok(0x01020304050607080910111213141516_i128), buf.try_get_i128_le());
    /// assert_eq!(6, buf.remaining());
    /// ```
    ///
    /// ```
    /// use bytes::{Buf, TryGetError};
    ///
    /// let mut buf = &b"\x16\x15\x14\x13\x12\x11\x10\x09\x08\x07\x06\x05\x04\x03\x02"[..];
    /// assert_eq!(Err(TryGetError{requested: 16, available: 15}), buf.try_get_i128_le());
    /// assert_eq!(15, buf.remaining());
    /// ```
    fn try_get_i128_le(&mut self) -> Result<i128, TryGetError> {
        buf_try_get_impl!(self, i128::from_le_bytes)
    }

    /// Gets a signed 128 bit integer from `self` in native-endian byte order.
    ///
    /// The current position is advanced by 16.
    ///
    /// Returns `Err(TryGetError)` when there are not enough
    /// remaining bytes to read the value.
    ///
    /// # Examples
    ///
    /// ```
    /// use bytes::Buf;
    ///
    /// let mut buf: &[u8] = match cfg!(target_endian = "big") {
    ///     true => b"\x01\x02\x03\x04\x05\x06\x07\x08\x09\x10\x11\x12\x13\x14\x15\x16 hello",
    ///     false => b"\x16\x15\x14\x13\x12\x11\x10\x09\x08\x07\x06\x05\x04\x03\x02\x01 hello",
    /// };
    /// assert_eq!(Ok(0x01020304050607080910111213141516_i128), buf.try_get_i128_ne());
    /// assert_eq!(6, buf.remaining());
    /// ```
    ///
    /// ```
    /// use bytes::{Buf, TryGetError};
    ///
    /// let mut buf = &b"\x01\x02\x03\x04\x05\x06\x07\x08\x09\x10\x11\x12\x13\x14\x15"[..];
    /// assert_eq!(Err(TryGetError{requested: 16, available: 15}), buf.try_get_i128_ne());
    /// assert_eq!(15, buf.remaining());
    /// ```
    fn try_get_i128_ne(&mut self) -> Result<i128, TryGetError> {
        buf_try_get_impl!(self, i128::from_ne_bytes)
    }

    /// Gets an unsigned n-byte integer from `self` in big-endian byte order.
    ///
    /// The current position is advanced by `nbytes`.
    ///
    /// Returns `Err(TryGetError)` when there are not enough
    /// remaining bytes to read the value.
    ///
    /// # Examples
    ///
    /// ```
    /// use bytes::Buf;
    ///
    /// let mut buf = &b"\x01\x02\x03 hello"[..];
    /// assert_eq!(Ok(0x010203_u64), buf.try_get_uint(3));
    /// assert_eq!(6, buf.remaining());
    /// ```
    ///
    /// ```
    /// use bytes::{Buf, TryGetError};
    ///
    /// let mut buf = &b"\x01\x02\x03"[..];
    /// assert_eq!(Err(TryGetError{requested: 4, available: 3}), buf.try_get_uint(4));
    /// assert_eq!(3, buf.remaining());
    /// ```
    ///
    /// # Panics
    ///
    /// This function panics if `nbytes` > 8.
    fn try_get_uint(&mut self, nbytes: usize) -> Result<u64, TryGetError> {
        buf_try_get_impl!(be => self, u64, nbytes);
    }

    /// Gets an unsigned n-byte integer from `self` in little-endian byte order.
    ///
    /// The current position is advanced by `nbytes`.
    ///
    /// Returns `Err(TryGetError)` when there are not enough
    /// remaining bytes to read the value.
    ///
    /// # Examples
    ///
    /// ```
    /// use bytes::Buf;
    ///
    /// let mut buf = &b"\x03\x02\x01 hello"[..];
    /// assert_eq!(Ok(0x010203_u64), buf.try_get_uint_le(3));
    /// assert_eq!(6, buf.remaining());
    /// ```
    ///
    /// ```
    /// use bytes::{Buf, TryGetError};
    ///
    /// let mut buf = &b"\x01\x02\x03"[..];
    /// assert_eq!(Err(TryGetError{requested: 4, available: 3}), buf.try_get_uint_le(4));
    /// assert_eq!(3, buf.remaining());
    /// ```
    ///
    /// # Panics
    ///
    /// This function panics if `nbytes` > 8.
    fn try_get_uint_le(&mut self, nbytes: usize) -> Result<u64, TryGetError> {
        buf_try_get_impl!(le => self, u64, nbytes);
    }

    /// Gets an unsigned n-byte integer from `self` in native-endian byte order.
    ///
    /// The current position is advanced by `nbytes`.
    ///
    /// Returns `Err(TryGetError)` when there are not enough
    /// remaining bytes to read the value.
    ///
    /// # Examples
    ///
    /// ```
    /// use bytes::Buf;
    ///
    /// let mut buf: &[u8] = match cfg!(target_endian = "big") {
    ///     true => b"\x01\x02\x03 hello",
    ///     false => b"\x03\x02\x01 hello",
    /// };
    /// assert_eq!(Ok(0x010203_u64), buf.try_get_uint_ne(3));
    /// assert_eq!(6, buf.remaining());
    /// ```
    ///
    /// ```
    /// use bytes::{Buf, TryGetError};
    ///
    /// let mut buf: &[u8] = match cfg!(target_endian = "big") {
    ///     true => b"\x01\x02\x03",
    ///     false => b"\x03\x02\x01",
    /// };
    /// assert_eq!(Err(TryGetError{requested: 4, available: 3}), buf.try_get_uint_ne(4));
    /// assert_eq!(3, buf.remaining());
    /// ```
    ///
    /// # Panics
    ///
    /// This function panics if `nbytes` is greater than 8.
    fn try_get_uint_ne(&mut self, nbytes: usize) -> Result<u64, TryGetError> {
        if cfg!(target_endian = "big") {
            self.try_get_uint(nbytes)
        } else {
            self.try_get_uint_le(nbytes)
        }
    }

    /// Gets a signed n-byte integer from `self` in big-endian byte order.
    ///
    /// The current position is advanced by `nbytes`.
    ///
    /// Returns `Err(TryGetError)` when there are not enough
    /// remaining bytes to read the value.
    ///
    /// # Examples
    ///
    /// ```
    /// use bytes::Buf;
    ///
    /// let mut buf = &b"\x01\x02\x03 hello"[..];
    /// assert_eq!(Ok(0x010203_i64), buf.try_get_int(3));
    /// assert_eq!(6, buf.remaining());
    /// ```
    ///
    /// ```
    /// use bytes::{Buf, TryGetError};
    ///
    /// let mut buf = &b"\x01\x02\x03"[..];
    /// assert_eq!(Err(TryGetError{requested: 4, available: 3}), buf.try_get_int(4));
    /// assert_eq!(3, buf.remaining());
    /// ```
    ///
    /// # Panics
    ///
    /// This function panics if `nbytes` is greater than 8.
    fn try_get_int(&mut self, nbytes: usize) -> Result<i64, TryGetError> {
        buf_try_get_impl!(be => self, i64, nbytes);
    }

    /// Gets a signed n-byte integer from `self` in little-endian byte order.
    ///
    /// The current position is advanced by `nbytes`.
    ///
    /// Returns `Err(TryGetError)` when there are not enough
    /// remaining bytes to read the value.
    ///
    /// # Examples
    ///
    /// ```
    /// use bytes::Buf;
    ///
    /// let mut buf = &b"\x03\x02\x01 hello"[..];
    /// assert_eq!(Ok(0x010203_i64), buf.try_get_int_le(3));
    /// assert_eq!(6, buf.remaining());
    /// ```
    ///
    /// ```
    /// use bytes::{Buf, TryGetError};
    ///
    /// let mut buf = &b"\x01\x02\x03"[..];
    /// assert_eq!(Err(TryGetError{requested: 4, available: 3}), buf.try_get_int_le(4));
    /// assert_eq!(3, buf.remaining());
    /// ```
    ///
    /// # Panics
    ///
    /// This function panics if `nbytes` is greater than 8.
    fn try_get_int_le(&mut self, nbytes: usize) -> Result<i64, TryGetError> {
        buf_try_get_impl!(le => self, i64, nbytes);
    }

    /// Gets a signed n-byte integer from `self` in native-endian byte order.
    ///
    /// The current position is advanced by `nbytes`.
    ///
    /// Returns `Err(TryGetError)` when there are not enough
    /// remaining bytes to read the value.
    ///
    /// # Examples
    ///
    /// ```
    /// use bytes::Buf;
    ///
    /// let mut buf: &[u8] = match cfg!(target_endian = "big") {
    ///     true => b"\x01\x02\x03 hello",
    ///     false => b"\x03\x02\x01 hello",
    /// };
    /// assert_eq!(Ok(0x010203_i64), buf.try_get_int_ne(3));
    /// assert_eq!(6, buf.remaining());
    /// ```
    ///
    /// ```
    /// use bytes::{Buf, TryGetError};
    ///
    /// let mut buf: &[u8] = match cfg!(target_endian = "big") {
    ///     true => b"\x01\x02\x03",
    ///     false => b"\x03\x02\x01",
    /// };
    /// assert_eq!(Err(TryGetError{requested: 4, available: 3}), buf.try_get_int_ne(4));
    /// assert_eq!(3, buf.remaining());
    /// ```
    ///
    /// # Panics
    ///
    /// This function panics if `nbytes` is greater than 8.
    fn try_get_int_ne(&mut self, nbytes: usize) -> Result<i64, TryGetError> {
        if cfg!(target_endian = "big") {
            self.try_get_int(nbytes)
        } else {
            self.try_get_int_le(nbytes)
        }
    }

    /// Gets an IEEE754 single-precision (4 bytes) floating point number from
    /// `self` in big-endian byte order.
    ///
    /// The current position is advanced by 4.
    ///
    /// Returns `Err(TryGetError)` when there are not enough
    /// remaining bytes to read the value.
    ///
    /// # Examples
    ///
    /// ```
    /// use bytes::Buf;
    ///
    /// let mut buf = &b"\x3F\x99\x99\x9A hello"[..];
    /// assert_eq!(1.2f32, buf.get_f32());
    /// assert_eq!(6, buf.remaining());
    /// ```
    ///
    /// ```
    /// use bytes::{Buf, TryGetError};
    ///
    /// let mut buf = &b"\x3F\x99\x99"[..];
    /// assert_eq!(Err(TryGetError{requested: 4, available: 3}), buf.try_get_f32());
    /// assert_eq!(3, buf.remaining());
    /// ```
    fn try_get_f32(&mut self) -> Result<f32, TryGetError> {
        Ok(f32::from_bits(self.try_get_u32()?))
    }

    /// Gets an IEEE754 single-precision (4 bytes) floating point number from
    /// `self` in little-endian byte order.
    ///
    /// The current position is advanced by 4.
    ///
    /// Returns `Err(TryGetError)` when there are not enough
    /// remaining bytes to read the value.
    ///
    /// # Examples
    ///
    /// ```
    /// use bytes::Buf;
    ///
    /// let mut buf = &b"\x9A\x99\x99\x3F hello"[..];
    /// assert_eq!(1.2f32, buf.get_f32_le());
    /// assert_eq!(6, buf.remaining());
    /// ```
    ///
    /// ```
    /// use bytes::{Buf, TryGetError};
    ///
    /// let mut buf = &b"\x3F\x99\x99"[..];
    /// assert_eq!(Err(TryGetError{requested: 4, available: 3}), buf.try_get_f32_le());
    /// assert_eq!(3, buf.remaining());
    /// ```
    fn try_get_f32_le(&mut self) -> Result<f32, TryGetError> {
        Ok(f32::from_bits(self.try_get_u32_le()?))
    }

    /// Gets an IEEE754 single-precision (4 bytes) floating point number from
    /// `self` in native-endian byte order.
    ///
    /// The current position is advanced by 4.
    ///
    /// Returns `Err(TryGetError)` when there are not enough
    /// remaining bytes to read the value.
    ///
    /// # Examples
    ///
    /// ```
    /// use bytes::Buf;
    ///
    /// let mut buf: &[u8] = match cfg!(target_endian = "big") {
    ///     true => b"\x3F\x99\x99\x9A hello",
    ///     false => b"\x9A\x99\x99\x3F hello",
    /// };
    /// assert_eq!(1.2f32, buf.get_f32_ne());
    /// assert_eq!(6, buf.remaining());
    /// ```
    ///
    /// ```
    /// use bytes::{Buf, TryGetError};
    ///
    /// let mut buf = &b"\x3F\x99\x99"[..];
    /// assert_eq!(Err(TryGetError{requested: 4, available: 3}), buf.try_get_f32_ne());
    /// assert_eq!(3, buf.remaining());
    /// ```
    fn try_get_f32_ne(&mut self) -> Result<f32, TryGetError> {
        Ok(f32::from_bits(self.try_get_u32_ne()?))
    }

    /// Gets an IEEE754 double-precision (8 bytes) floating point number from
    /// `self` in big-endian byte order.
    ///
    /// The current position is advanced by 8.
    ///
    /// Returns `Err(TryGetError)` when there are not enough
    /// remaining bytes to read the value.
    ///
    /// # Examples
    ///
    /// ```
    /// use bytes::Buf;
    ///
    /// let mut buf = &b"\x3F\xF3\x33\x33\x33\x33\x33\x33 hello"[..];
    /// assert_eq!(1.2f64, buf.get_f64());
    /// assert_eq!(6, buf.remaining());
    /// ```
    ///
    /// ```
    /// use bytes::{Buf, TryGetError};
    ///
    /// let mut buf = &b"\x3F\xF3\x33\x33\x33\x33\x33"[..];
    /// assert_eq!(Err(TryGetError{requested: 8, available: 7}), buf.try_get_f64());
    /// assert_eq!(7, buf.remaining());
    /// ```
    fn try_get_f64(&mut self) -> Result<f64, TryGetError> {
        Ok(f64::from_bits(self.try_get_u64()?))
    }

    /// Gets an IEEE754 double-precision (8 bytes) floating point number from
    /// `self` in little-endian byte order.
    ///
    /// The current position is advanced by 8.
    ///
    /// Returns `Err(TryGetError)` when there are not enough
    /// remaining bytes to read the value.
    ///
    /// # Examples
    ///
    /// ```
    /// use bytes::Buf;
    ///
    /// let mut buf = &b"\x33\x33\x33\x33\x33\x33\xF3\x3F hello"[..];
    /// assert_eq!(1.2f64, buf.get_f64_le());
    /// assert_eq!(6, buf.remaining());
    /// ```
    ///
    /// ```
    /// use bytes::{Buf, TryGetError};
    ///
    /// let mut buf = &b"\x3F\xF3\x33\x33\x33\x33\x33"[..];
    /// assert_eq!(Err(TryGetError{requested: 8, available: 7}), buf.try_get_f64_le());
    /// assert_eq!(7, buf.remaining());
    /// ```
    fn try_get_f64_le(&mut self) -> Result<f64, TryGetError> {
        Ok(f64::from_bits(self.try_get_u64_le()?))
    }

    /// Gets an IEEE754 double-precision (8 bytes) floating point number from
    /// `self` in native-endian byte order.
    ///
    /// The current position is advanced by 8.
    ///
    /// Returns `Err(TryGetError)` when there are not enough
    /// remaining bytes to read the value.
    ///
    /// # Examples
    ///
    /// ```
    /// use bytes::Buf;
    ///
    /// let mut buf: &[u8] = match cfg!(target_endian = "big") {
    ///     true => b"\x3F\xF3\x33\x33\x33\x33\x33\x33 hello",
    ///     false => b"\x33\x33\x33\x33\x33\x33\xF3\x3F hello",
    /// };
    /// assert_eq!(1.2f64, buf.get_f64_ne());
    /// assert_eq!(6, buf.remaining());
    /// ```
    ///
    /// ```
    /// use bytes::{Buf, TryGetError};
    ///
    /// let mut buf = &b"\x3F\xF3\x33\x33\x33\x33\x33"[..];
    /// assert_eq!(Err(TryGetError{requested: 8, available: 7}), buf.try_get_f64_ne());
    /// assert_eq!(7, buf.remaining());
    /// ```
    fn try_get_f64_ne(&mut self) -> Result<f64, TryGetError> {
        Ok(f64::from_bits(self.try_get_u64_ne()?))
    }

    /// Consumes `len` bytes inside self and returns new instance of `Bytes`
    /// with this data.
    ///
    /// This function may be optimized by the underlying type to avoid actual
    /// copies. For example, `Bytes` implementation will do a shallow copy
    /// (ref-count increment).
    ///
    /// # Examples
    ///
    /// ```
    /// use bytes::Buf;
    ///
    /// let bytes = (&b"hello world"[..]).copy_to_bytes(5);
    /// assert_eq!(&bytes[..], &b"hello"[..]);
    /// ```
    ///
    /// # Panics
    ///
    /// This function panics if `len > self.remaining()`.
    fn copy_to_bytes(&mut self, len: usize) -> crate::Bytes {
        use super::BufMut;

        if self.remaining() < len {
            panic_advance(&TryGetError {
                requested: len,
                available: self.remaining(),
            });
        }

        let mut ret = crate::BytesMut::with_capacity(len);
        ret.put(self.take(len));
        ret.freeze()
    }

    /// Creates an adaptor which will read at most `limit` bytes from `self`.
    ///
    /// This function returns a new instance of `Buf` which will read at most
    /// `limit` bytes.
    ///
    /// # Examples
    ///
    /// ```
    /// use bytes::{Buf, BufMut};
    ///
    /// let mut buf = b"hello world"[..].take(5);
    /// let mut dst = vec![];
    ///
    /// dst.put(&mut buf);
    /// assert_eq!(dst, b"hello");
    ///
    /// let mut buf = buf.into_inner();
    /// dst.clear();
    /// dst.put(&mut buf);
    /// assert_eq!(dst, b" world");
    /// ```
    fn take(self, limit: usize) -> Take<Self>
    where
        Self: Sized,
    {
        take::new(self, limit)
    }

    /// Creates an adaptor which will chain this buffer with another.
    ///
    /// The returned `Buf` instance will first consume all bytes from `self`.
    /// Afterwards the output is equivalent to the output of next.
    ///
    /// # Examples
    ///
    /// ```
    /// use bytes::Buf;
    ///
    /// let mut chain = b"hello "[..].chain(&b"world"[..]);
    ///
    /// let full = chain.copy_to_bytes(11);
    /// assert_eq!(full.chunk(), b"hello world");
    /// ```
    fn chain<U: Buf>(self, next: U) -> Chain<Self, U>
    where
        Self: Sized,
    {
        Chain::new(self, next)
    }

    /// Creates an adaptor which implements the `Read` trait for `self`.
    ///
    /// This function returns a new value which implements `Read` by adapting
    /// the `Read` trait functions to the `Buf` trait functions. Given that
    /// `Buf` operations are infallible, none of the `Read` functions will
    /// return with `Err`.
    ///
    /// # Examples
    ///
    /// ```
    /// use bytes::{Bytes, Buf};
    /// use std::io::Read;
    ///
    /// let buf = Bytes::from("hello world");
    ///
    /// let mut reader = buf.reader();
    /// let mut dst = [0; 1024];
    ///
    /// let num = reader.read(&mut dst).unwrap();
    ///
    /// assert_eq!(11, num);
    /// assert_eq!(&dst[..11], &b"hello world"[..]);
    /// ```
    #[cfg(feature = "std")]
    #[cfg_attr(docsrs, doc(cfg(feature = "std")))]
    fn reader(self) -> Reader<Self>
    where
        Self: Sized,
    {
        reader::new(self)
    }
}

macro_rules! deref_forward_buf {
    () => {
        #[inline]
        fn remaining(&self) -> usize {
            (**self).remaining()
        }

        #[inline]
        fn chunk(&self) -> &[u8] {
            (**self).chunk()
        }

        #[cfg(feature = "std")]
        #[inline]
        fn chunks_vectored<'b>(&'b self, dst: &mut [IoSlice<'b>]) -> usize {
            (**self).chunks_vectored(dst)
        }

        #[inline]
        fn advance(&mut self, cnt: usize) {
            (**self).advance(cnt)
        }

        #[inline]
        fn has_remaining(&self) -> bool {
            (**self).has_remaining()
        }

        #[inline]
        fn copy_to_slice(&mut self, dst: &mut [u8]) {
            (**self).copy_to_slice(dst)
        }

        #[inline]
        fn get_u8(&mut self) -> u8 {
            (**self).get_u8()
        }

        #[inline]
        fn get_i8(&mut self) -> i8 {
            (**self).get_i8()
        }

        #[inline]
        fn get_u16(&mut self) -> u16 {
            (**self).get_u16()
        }

        #[inline]
        fn get_u16_le(&mut self) -> u16 {
            (**self).get_u16_le()
        }

        #[inline]
        fn get_u16_ne(&mut self) -> u16 {
            (**self).get_u16_ne()
        }

        #[inline]
        fn get_i16(&mut self) -> i16 {
            (**self).get_i16()
        }

        #[inline]
        fn get_i16_le(&mut self) -> i16 {
            (**self).get_i16_le()
        }

        #[inline]
        fn get_i16_ne(&mut self) -> i16 {
            (**self).get_i16_ne()
        }

        #[inline]
        fn get_u32(&mut self) -> u32 {
            (**self).get_u32()
        }

        #[inline]
        fn get_u32_le(&mut self) -> u32 {
            (**self).get_u32_le()
        }

        #[inline]
        fn get_u32_ne(&mut self) -> u32 {
            (**self).get_u32_ne()
        }

        #[inline]
        fn get_i32(&mut self) -> i32 {
            (**self).get_i32()
        }

        #[inline]
        fn get_i32_le(&mut self) -> i32 {
            (**self).get_i32_le()
        }

        #[inline]
        fn get_i32_ne(&mut self) -> i32 {
            (**self).get_i32_ne()
        }

        #[inline]
        fn get_u64(&mut self) -> u64 {
            (**self).get_u64()
        }

        #[inline]
        fn get_u64_le(&mut self) -> u64 {
            (**self).get_u64_le()
        }

        #[inline]
        fn get_u64_ne(&mut self) -> u64 {
            (**self).get_u64_ne()
        }

        #[inline]
        fn get_i64(&mut self) -> i64 {
            (**self).get_i64()
        }

        #[inline]
        fn get_i64_le(&mut self) -> i64 {
            (**self).get_i64_le()
        }

        #[inline]
        fn get_i64_ne(&mut self) -> i64 {
            (**self).get_i64_ne()
        }

        #[inline]
        fn get_u128(&mut self) -> u128 {
            (**self).get_u128()
        }

        #[inline]
        fn get_u128_le(&mut self) -> u128 {
            (**self).get_u128_le()
        }

        #[inline]
        fn get_u128_ne(&mut self) -> u128 {
            (**self).get_u128_ne()
        }

        #[inline]
        fn get_i128(&mut self) -> i128 {
            (**self).get_i128()
        }

        #[inline]
        fn get_i128_le(&mut self) -> i128 {
            (**self).get_i128_le()
        }

        #[inline]
        fn get_i128_ne(&mut self) -> i128 {
            (**self).get_i128_ne()
        }

        #[inline]
        fn get_uint(&mut self, nbytes: usize) -> u64 {
            (**self).get_uint(nbytes)
        }

        #[inline]
        fn get_uint_le(&mut self, nbytes: usize) -> u64 {
            (**self).get_uint_le(nbytes)
        }

        #[inline]
        fn get_uint_ne(&mut self, nbytes: usize) -> u64 {
            (**self).get_uint_ne(nbytes)
        }

        #[inline]
        fn get_int(&mut self, nbytes: usize) -> i64 {
            (**self).get_int(nbytes)
        }

        #[inline]
        fn get_int_le(&mut self, nbytes: usize) -> i64 {
            (**self).get_int_le(nbytes)
        }

        #[inline]
        fn get_int_ne(&mut self, nbytes: usize) -> i64 {
            (**self).get_int_ne(nbytes)
        }

        #[inline]
        fn get_f32(&mut self) -> f32 {
            (**self).get_f32()
        }

        #[inline]
        fn get_f32_le(&mut self) -> f32 {
            (**self).get_f32_le()
        }

        #[inline]
        fn get_f32_ne(&mut self) -> f32 {
            (**self).get_f32_ne()
        }

        #[inline]
        fn get_f64(&mut self) -> f64 {
            (**self).get_f64()
        }

        #[inline]
        fn get_f64_le(&mut self) -> f64 {
            (**self).get_f64_le()
        }

        #[inline]
        fn get_f64_ne(&mut self) -> f64 {
            (**self).get_f64_ne()
        }

        #[inline]
        fn try_copy_to_slice(&mut self, dst: &mut [u8]) -> Result<(), TryGetError> {
            (**self).try_copy_to_slice(dst)
        }

        #[inline]
        fn try_get_u8(&mut self) -> Result<u8, TryGetError> {
            (**self).try_get_u8()
        }

        #[inline]
        fn try_get_i8(&mut self) -> Result<i8, TryGetError> {
            (**self).try_get_i8()
        }

        #[inline]
        fn try_get_u16(&mut self) -> Result<u16, TryGetError> {
            (**self).try_get_u16()
        }

        #[inline]
        fn try_get_u16_le(&mut self) -> Result<u16, TryGetError> {
            (**self).try_get_u16_le()
        }

        #[inline]
        fn try_get_u16_ne(&mut self) -> Result<u16, TryGetError> {
            (**self).try_get_u16_ne()
        }

        #[inline]
        fn try_get_i16(&mut self) -> Result<i16, TryGetError> {
            (**self).try_get_i16()
        }

        #[inline]
        fn try_get_i16_le(&mut self) -> Result<i16, TryGetError> {
            (**self).try_get_i16_le()
        }

        #[inline]
        fn try_get_i16_ne(&mut self) -> Result<i16, TryGetError> {
            (**self).try_get_i16_ne()
        }

        #[inline]
        fn try_get_u32(&mut self) -> Result<u32, TryGetError> {
            (**self).try_get_u32()
        }

        #[inline]
        fn try_get_u32_le(&mut self) -> Result<u32, TryGetError> {
            (**self).try_get_u32_le()
        }

        #[inline]
        fn try_get_u32_ne(&mut self) -> Result<u32, TryGetError> {
            (**self).try_get_u32_ne()
        }

        #[inline]
        fn try_get_i32(&mut self) -> Result<i32, TryGetError> {
            (**self).try_get_i32()
        }

        #[inline]
        fn try_get_i32_le(&mut self) -> Result<i32, TryGetError> {
            (**self).try_get_i32_le()
        }

        #[inline]
        fn try_get_i32_ne(&mut self) -> Result<i32, TryGetError> {
            (**self).try_get_i32_ne()
        }

        #[inline]
        fn try_get_u64(&mut self) -> Result<u64, TryGetError> {
            (**self).try_get_u64()
        }

        #[inline]
        fn try_get_u64_le(&mut self) -> Result<u64, TryGetError> {
            (**self).try_get_u64_le()
        }

        #[inline]
        fn try_get_u64_ne(&mut self) -> Result<u64, TryGetError> {
            (**self).try_get_u64_ne()
        }

        #[inline]
        fn try_get_i64(&mut self) -> Result<i64, TryGetError> {
            (**self).try_get_i64()
        }

        #[inline]
        fn try_get_i64_le(&mut self) -> Result<i64, TryGetError> {
            (**self).try_get_i64_le()
        }

        #[inline]
        fn try_get_i64_ne(&mut self) -> Result<i64, TryGetError> {
            (**self).try_get_i64_ne()
        }

        #[inline]
        fn try_get_u128(&mut self) -> Result<u128, TryGetError> {
            (**self).try_get_u128()
        }

        #[inline]
        fn try_get_u128_le(&mut self) -> Result<u128, TryGetError> {
            (**self).try_get_u128_le()
        }

        #[inline]
        fn try_get_u128_ne(&mut self) -> Result<u128, TryGetError> {
            (**self).try_get_u128_ne()
        }

        #[inline]
        fn try_get_i128(&mut self) -> Result<i128, TryGetError> {
            (**self).try_get_i128()
        }

        #[inline]
        fn try_get_i128_le(&mut self) -> Result<i128, TryGetError> {
            (**self).try_get_i128_le()
        }

        #[inline]
        fn try_get_i128_ne(&mut self) -> Result<i128, TryGetError> {
            (**self).try_get_i128_ne()
        }

        #[inline]
        fn try_get_uint(&mut self, nbytes: usize) -> Result<u64, TryGetError> {
            (**self).try_get_uint(nbytes)
        }

        #[inline]
        fn try_get_uint_le(&mut self, nbytes: usize) -> Result<u64, TryGetError> {
            (**self).try_get_uint_le(nbytes)
        }

        #[inline]
        fn try_get_uint_ne(&mut self, nbytes: usize) -> Result<u64, TryGetError> {
            (**self).try_get_uint_ne(nbytes)
        }

        #[inline]
        fn try_get_int(&mut self, nbytes: usize) -> Result<i64, TryGetError> {
            (**self).try_get_int(nbytes)
        }

        #[inline]
        fn try_get_int_le(&mut self, nbytes: usize) -> Result<i64, TryGetError> {
            (**self).try_get_int_le(nbytes)
        }

        #[inline]
        fn try_get_int_ne(&mut self, nbytes: usize) -> Result<i64, TryGetError> {
            (**self).try_get_int_ne(nbytes)
        }

        #[inline]
        fn try_get_f32(&mut self) -> Result<f32, TryGetError> {
            (**self).try_get_f32()
        }

        #[inline]
        fn try_get_f32_le(&mut self) -> Result<f32, TryGetError> {
            (**self).try_get_f32_le()
        }

        #[inline]
        fn try_get_f32_ne(&mut self) -> Result<f32, TryGetError> {
            (**self).try_get_f32_ne()
        }

        #[inline]
        fn try_get_f64(&mut self) -> Result<f64, TryGetError> {
            (**self).try_get_f64()
        }

        #[inline]
        fn try_get_f64_le(&mut self) -> Result<f64, TryGetError> {
            (**self).try_get_f64_le()
        }

        #[inline]
        fn try_get_f64_ne(&mut self) -> Result<f64, TryGetError> {
            (**self).try_get_f64_ne()
        }

        #[inline]
        fn copy_to_bytes(&mut self, len: usize) -> crate::Bytes {
            (**self).copy_to_bytes(len)
        }
    };
}

impl<T: Buf + ?Sized> Buf for &mut T {
    deref_forward_buf!();
}

impl<T: Buf + ?Sized> Buf for Box<T> {
    deref_forward_buf!();
}

impl Buf for &[u8] {
    #[inline]
    fn remaining(&self) -> usize {
        self.len()
    }

    #[inline]
    fn chunk(&self) -> &[u8] {
        self
    }

    #[inline]
    fn advance(&mut self, cnt: usize) {
        if self.len() < cnt {
            panic_advance(&TryGetError {
                requested: cnt,
                available: self.len(),
            });
        }

        *self = &self[cnt..];
    }

    #[inline]
    fn copy_to_slice(&mut self, dst: &mut [u8]) {
        if self.len() < dst.len() {
            panic_advance(&TryGetError {
                requested: dst.len(),
                available: self.len(),
            });
        }

        dst.copy_from_slice(&self[..dst.len()]);
        self.advance(dst.len());
    }
}

#[cfg(feature = "std")]
impl<T: AsRef<[u8]>> Buf for std::io::Cursor<T> {
    #[inline]
    fn remaining(&self) -> usize {
        saturating_sub_usize_u64(self.get_ref().as_ref().len(), self.position())
    }

    #[inline]
    fn chunk(&self) -> &[u8] {
        let slice = self.get_ref().as_ref();
        let pos = min_u64_usize(self.position(), slice.len());
        &slice[pos..]
    }

    #[inline]
    fn advance(&mut self, cnt: usize) {
        let len = self.get_ref().as_ref().len();
        let pos = self.position();

        // We intentionally allow `cnt == 0` here even if `pos > len`.
        let max_cnt = saturating_sub_usize_u64(len, pos);
        if cnt > max_cnt {
            panic_advance(&TryGetError {
                requested: cnt,
                available: max_cnt,
            });
        }

        // This will not overflow because either `cnt == 0` or the sum is not
        // greater than `len`.
        self.set_position(pos + cnt as u64);
    }
}

// The existence of this function makes the compiler catch if the Buf
// trait is "object-safe" or not.
fn _assert_trait_object(_b: &dyn Buf) {}

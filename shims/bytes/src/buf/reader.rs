use crate::Buf;

use std::{cmp, io};

/// A `Buf` adapter which implements `io::Read` for the inner value.
///
/// This struct is generally created by calling `reader()` on `Buf`. See
/// documentation of [`reader()`](Buf::reader) for more
/// details.
#[derive(Debug)]
pub struct Reader<B> {
    buf: B,
}

pub fn new<B>(buf: B) -> Reader<B> {
    Reader { buf }
}

impl<B: Buf> Reader<B> {
    /// Gets a reference to the underlying `Buf`.
    ///
    /// It is inadvisable to directly read from the underlying `Buf`.
    ///
    /// # Examples
    ///
    /// ```rust
    /// use bytes::Buf;
    ///
    /// let buf = b"hello world".reader();
    ///
    /// assert_eq!(b"hello world", buf.get_ref());
    /// ```
    pub fn get_ref(&self) -> &B {
        &self.buf
    }

    /// Gets a mutable reference to the underlying `Buf`.
    ///
    /// It is inadvisable to directly read from the underlying `Buf`.
    pub fn get_mut(&mut self) -> &mut B {
        &mut self.buf
    }

    /// Consumes this `Reader`, returning the underlying value.
    ///
    /// # Examples
    ///
    /// ```rust
    /// use bytes::Buf;
    /// use std::io;
    ///
    /// let mut buf = b"hello world".reader();
    /// let mut dst = vec![];
    ///
    /// io::copy(&mut buf, &mut dst).unwrap();
    ///
    /// let buf = buf.into_inner();
    /// assert_eq!(0, buf.remaining());
    /// ```
    pub fn into_inner(self) -> B {
        self.buf
    }
}

impl<B: Buf + Sized> io::Read for Reader<B> {
    fn read(&mut self, dst: &mut [u8]) -> io::Result<usize> {
        let len = cmp::min(self.buf.remaining(), dst.len());

        Buf::copy_to_slice(&mut self.buf, &mut dst[0..len]);
        Ok(len)
    }
}

impl<B: Buf + Sized> io::BufRead for Reader<B> {
    fn fill_buf(&mut self) -> io::Result<&[u8]> {
        Ok(self.buf.chunk())
    }
    fn consume(&mut self, amt: usize) {
        self.buf.advance(amt)
    }
}

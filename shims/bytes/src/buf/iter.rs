use crate::Buf;

/// Iterator over the bytes contained by the buffer.
///
/// # Examples
///
/// Basic usage:
///
/// ```
/// use bytes::Bytes;
///
/// let buf = Bytes::from(&b"abc"[..]);
/// let mut iter = buf.into_iter();
///
/// assert_eq!(iter.next(), Some(b'a'));
/// assert_eq!(iter.next(), Some(b'b'));
/// assert_eq!(iter.next(), Some(b'c'));
/// assert_eq!(iter.next(), None);
/// ```
#[derive(Debug)]
pub struct IntoIter<T> {
    inner: T,
}

impl<T> IntoIter<T> {
    /// Creates an iterator over the bytes contained by the buffer.
    ///
    /// # Examples
    ///
    /// ```
    /// use bytes::Bytes;
    ///
    /// let buf = Bytes::from_static(b"abc");
    /// let mut iter = buf.into_iter();
    ///
    /// assert_eq!(iter.next(), Some(b'a'));
    /// assert_eq!(iter.next(), Some(b'b'));
    /// assert_eq!(iter.next(), Some(b'c'));
    /// assert_eq!(iter.next(), None);
    /// ```
    pub fn new(inner: T) -> IntoIter<T> {
        IntoIter { inner }
    }

    /// Consumes this `IntoIter`, returning the underlying value.
    ///
    /// # Examples
    ///
    /// ```rust
    /// use bytes::{Buf, Bytes};
    ///
    /// let buf = Bytes::from(&b"abc"[..]);
    /// let mut iter = buf.into_iter();
    ///
    /// assert_eq!(iter.next(), Some(b'a'));
    ///
    /// let buf = iter.into_inner();
    /// assert_eq!(2, buf.remaining());
    /// ```
    pub fn into_inner(self) -> T {
        self.inner
    }

    /// Gets a reference to the underlying `Buf`.
    ///
    /// It is inadvisable to directly read from the underlying `Buf`.
    ///
    /// # Examples
    ///
    /// ```rust
    /// use bytes::{Buf, Bytes};
    ///
    /// let buf = Bytes::from(&b"abc"[..]);
    /// let mut iter = buf.into_iter();
    ///
    /// assert_eq!(iter.next(), Some(b'a'));
    ///
    /// assert_eq!(2, iter.get_ref().remaining());
    /// ```
    pub fn get_ref(&self) -> &T {
        &self.inner
    }

    /// Gets a mutable reference to the underlying `Buf`.
    ///
    /// It is inadvisable to directly read from the underlying `Buf`.
    ///
    /// # Examples
    ///
    /// ```rust
    /// use bytes::{Buf, BytesMut};
    ///
    /// let buf = BytesMut::from(&b"abc"[..]);
    /// let mut iter = buf.into_iter();
    ///
    /// assert_eq!(iter.next(), Some(b'a'));
    ///
    /// iter.get_mut().advance(1);
    ///
    /// assert_eq!(iter.next(), Some(b'c'));
    /// ```
    pub fn get_mut(&mut self) -> &mut T {
        &mut self.inner
    }
}

impl<T: Buf> Iterator for IntoIter<T> {
    type Item = u8;

    fn next(&mut self) -> Option<u8> {
        if !self.inner.has_remaining() {
            return None;
        }

        let b = self.inner.chunk()[0];
        self.inner.advance(1);

        Some(b)
    }

    fn size_hint(&self) -> (usize, Option<usize>) {
        let rem = self.inner.remaining();
        (rem, Some(rem))
    }
}

impl<T: Buf> ExactSizeIterator for IntoIter<T> {}

#[cfg(not(all(test, loom)))]
pub(crate) mod sync {
    pub(crate) mod atomic {
        #[cfg(not(feature = "extra-platforms"))]
        pub(crate) use core::sync::atomic::{AtomicPtr, AtomicUsize, Ordering};
        #[cfg(feature = "extra-platforms")]
        pub(crate) use extra_platforms::{AtomicPtr, AtomicUsize, Ordering};

        pub(crate) trait AtomicMut<T> {
            fn with_mut<F, R>(&mut self, f: F) -> R
            where
                F: FnOnce(&mut *mut T) -> R;
        }

        impl<T> AtomicMut<T> for AtomicPtr<T> {
            fn with_mut<F, R>(&mut self, f: F) -> R
            where
                F: FnOnce(&mut *mut T) -> R,
            {
                f(self.get_mut())
            }
        }
    }
}

#[cfg(all(test, loom))]
pub(crate) mod sync {
    pub(crate) mod atomic {
        pub(crate) use loom::sync::atomic::{AtomicPtr, AtomicUsize, Ordering};

        pub(crate) trait AtomicMut<T> {}
    }
}

use super::{Bytes, BytesMut};
use alloc::string::String;
use alloc::vec::Vec;
use core::{cmp, fmt};
use serde::{de, Deserialize, Deserializer, Serialize, Serializer};

macro_rules! serde_impl {
    ($ty:ident, $visitor_ty:ident, $from_slice:ident, $from_vec:ident) => {
        impl Serialize for $ty {
            #[inline]
            fn serialize<S>(&self, serializer: S) -> Result<S::Ok, S::Error>
            where
                S: Serializer,
            {
                serializer.serialize_bytes(&self)
            }
        }

        struct $visitor_ty;

        impl<'de> de::Visitor<'de> for $visitor_ty {
            type Value = $ty;

            fn expecting(&self, formatter: &mut fmt::Formatter<'_>) -> fmt::Result {
                formatter.write_str("byte array")
            }

            #[inline]
            fn visit_seq<V>(self, mut seq: V) -> Result<Self::Value, V::Error>
            where
                V: de::SeqAccess<'de>,
            {
                let len = cmp::min(seq.size_hint().unwrap_or(0), 4096);
                let mut values: Vec<u8> = Vec::with_capacity(len);

                while let Some(value) = seq.next_element()? {
                    values.push(value);
                }

                Ok($ty::$from_vec(values))
            }

            #[inline]
            fn visit_bytes<E>(self, v: &[u8]) -> Result<Self::Value, E>
            where
                E: de::Error,
            {
                Ok($ty::$from_slice(v))
            }

            #[inline]
            fn visit_byte_buf<E>(self, v: Vec<u8>) -> Result<Self::Value, E>
            where
                E: de::Error,
            {
                Ok($ty::$from_vec(v))
            }

            #[inline]
            fn visit_str<E>(self, v: &str) -> Result<Self::Value, E>
            where
                E: de::Error,
            {
                Ok($ty::$from_slice(v.as_bytes()))
            }

            #[inline]
            fn visit_string<E>(self, v: String) -> Result<Self::Value, E>
            where
                E: de::Error,
            {
                Ok($ty::$from_vec(v.into_bytes()))
            }
        }

        impl<'de> Deserialize<'de> for $ty {
            #[inline]
            fn deserialize<D>(deserializer: D) -> Result<$ty, D::Error>
            where
                D: Deserializer<'de>,
            {
                deserializer.deserialize_byte_buf($visitor_ty)
            }
        }
    };
}

serde_impl!(Bytes, BytesVisitor, copy_from_slice, from);
serde_impl!(BytesMut, BytesMutVisitor, from, from_vec);

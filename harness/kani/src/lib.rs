//! Kani proof harnesses over the real rumqttc / rumqttd code (path dependencies on /repo).
//!
//! Every module is `#[cfg(kani)]`: this crate is only ever compiled by `cargo kani`
//! (solver run, with the Vec-backed `bytes` model patched in) or by
//! `cargo kani playback` in the replay workspace (real `bytes`).
#![cfg_attr(kani, feature(allocator_api))]
#![allow(dead_code, unused_imports, unused_variables, unused_mut, clippy::all)]

#[cfg(kani)]
#[macro_use]
pub mod util;

#[cfg(kani)]
pub mod generated;
#[cfg(kani)]
pub mod c04;
#[cfg(kani)]
pub mod c05;
#[cfg(kani)]
pub mod c09;
#[cfg(kani)]
pub mod c12;
#[cfg(kani)]
pub mod c13;
#[cfg(kani)]
pub mod c20;
#[cfg(kani)]
#[macro_use]
pub mod sm;

#[cfg(kani)]
pub mod probe {
    use bytes::{Buf, BytesMut};
    #[kani::proof]
    #[kani::unwind(6)]
    pub fn failing() {
        let x: u16 = kani::any();
        let b: [u8; 3] = kani::any();
        let mut m = BytesMut::new();
        m.extend_from_slice(&b);
        let y = m.get_u8();
        assert!(!(x == 513 && y == 7), "probe: deliberately false");
    }
}

// Native replay of a solver counterexample: the driver writes the concrete-playback
// test Kani printed into a file and points VERIF_REPLAY_GEN at it (replay workspace only).
#[cfg(all(kani, feature = "replay"))]
include!(env!("VERIF_REPLAY_GEN"));

//! C04 layer 2+4 (MQTT 3.1.1): per packet type encode -> decode round trips within each crate
//! and ACROSS crates (client encoder -> broker decoder, broker encoder -> client decoder).
//!
//! The packet is an arbitrary value of the real type under the documented well-formedness
//! predicate only (QoS0 <=> pkid 0, QoS>0 => pkid != 0, non-empty filter list).  String and
//! payload LENGTHS are concrete per instance (rule 4), contents symbolic ASCII; ids, flags,
//! QoS, return codes symbolic.
//! Asserts: write Ok; bytes written == size()/return value; read yields an equal packet;
//! buffer fully consumed.  (Frames are encoded into a pre-sized buffer and decoded from that very
//! buffer: every memcpy between encoder and decoder hides the constant type byte / length
//! prefixes from CBMC's constant propagation and symex then walks all 14 packet parsers.  "Never
//! consumes beyond the declared frame" is decided on the framing layer, C05.)
use bytes::{Bytes, BytesMut};
use rumqttc::mqttbytes::v4 as c4;
use rumqttc::mqttbytes::QoS as CQoS;
use rumqttd::protocol as d;
use rumqttd::protocol::v4::V4;
use rumqttd::protocol::Protocol;

const SENTINEL: u8 = 0xA5;
const MAX: usize = 1 << 20;

pub fn ascii<const N: usize>() -> [u8; N] {
    let b: [u8; N] = kani::any();
    let mut i = 0;
    while i < N {
        kani::assume(b[i] < 0x80);
        i += 1;
    }
    b
}

pub fn string_of(b: &[u8]) -> String {
    unsafe { String::from_utf8_unchecked(b.to_vec()) }
}

fn any_qos() -> (CQoS, d::QoS, u8) {
    match kani::any::<u8>() % 3 {
        0 => (CQoS::AtMostOnce, d::QoS::AtMostOnce, 0),
        1 => (CQoS::AtLeastOnce, d::QoS::AtLeastOnce, 1),
        _ => (CQoS::ExactlyOnce, d::QoS::ExactlyOnce, 2),
    }
}

fn qnum_c(q: CQoS) -> u8 {
    q as u8
}
fn qnum_d(q: d::QoS) -> u8 {
    q as u8
}

/// client packet -> bytes (+ sentinel), checking size() and the returned count
fn c_encode(p: &c4::Packet) -> BytesMut {
    let mut buf = BytesMut::with_capacity(64);
    match p.write(&mut buf, MAX) {
        Ok(n) => {
            assert!(n == buf.len(), "C04: client write() return value != bytes written");
            assert!(p.size() == buf.len(), "C04: client size() != bytes written");
        }
        Err(_) => assert!(false, "C04: client encoder rejected a well-formed packet"),
    }
    buf
}

fn d_encode(p: d::Packet) -> BytesMut {
    let mut buf = BytesMut::with_capacity(64);
    match V4.write(p, &mut buf) {
        Ok(n) => assert!(n == buf.len(), "C04: broker write() return value != bytes written"),
        Err(_) => assert!(false, "C04: broker encoder rejected a well-formed packet"),
    }
    buf
}

/// Broker-encoded frame == client-encoded frame, byte for byte (so whatever decodes the one decodes
/// the other identically).  Decoding a broker-encoded buffer with either decoder does not finish
/// under CBMC (the type dispatch is not constant-folded after rumqttd's encoder ran; measured, see
/// DESIGN section 0), the encoders themselves take seconds.
fn eq_at(a: &BytesMut, b: &BytesMut, i: usize) -> bool {
    i >= a.len() || a[i] == b[i]
}

/// loop-free (frames in these harnesses are at most 16 bytes)
fn same_bytes(a: &BytesMut, b: &BytesMut) -> bool {
    a.len() == b.len()
        && a.len() <= 16
        && eq_at(a, b, 0) && eq_at(a, b, 1) && eq_at(a, b, 2) && eq_at(a, b, 3)
        && eq_at(a, b, 4) && eq_at(a, b, 5) && eq_at(a, b, 6) && eq_at(a, b, 7)
        && eq_at(a, b, 8) && eq_at(a, b, 9) && eq_at(a, b, 10) && eq_at(a, b, 11)
        && eq_at(a, b, 12) && eq_at(a, b, 13) && eq_at(a, b, 14) && eq_at(a, b, 15)
}

/// Decode with the client decoder and judge the result by reference; the decoded value (and any
/// error) is forgotten, never dropped: the drop glue of `Packet` / `Error` (io::Error inside) with a
/// symbolic discriminant is what makes CBMC explode, not the codec.
macro_rules! expect_client {
    ($buf:expr, $pat:pat => $cond:expr, $msg:literal) => {{
        let r = c4::Packet::read(&mut $buf, MAX);
        let ok = match &r {
            Ok($pat) => $cond,
            _ => false,
        };
        assert!(ok, $msg);
        assert!($buf.is_empty(), "C04: client decoder did not consume exactly the frame");
        core::mem::forget(r);
    }};
}

// ----------------------------------------------------------------------------- PUBLISH

/// qos / dup / retain are CONCRETE per call (they form byte 0 of the frame, which the decoders
/// dispatch on - a symbolic type/flag byte makes symex walk all 14 packet parsers); the callers
/// loop over all 12 combinations with a constant-bound loop.
fn any_publish<const T: usize, const P: usize, const Q: u8>(flags: u8) -> (c4::Publish, d::Publish) {
    let topic = ascii::<T>();
    let payload: [u8; P] = kani::any();
    let qn = Q;
    let (cq, dq) = match qn {
        0 => (CQoS::AtMostOnce, d::QoS::AtMostOnce),
        1 => (CQoS::AtLeastOnce, d::QoS::AtLeastOnce),
        _ => (CQoS::ExactlyOnce, d::QoS::ExactlyOnce),
    };
    let pkid: u16 = kani::any();
    kani::assume((qn == 0) == (pkid == 0));
    let dup: bool = flags % 2 == 1;
    let retain: bool = (flags / 2) % 2 == 1;
    let c = c4::Publish {
        dup,
        qos: cq,
        retain,
        topic: string_of(&topic),
        pkid,
        payload: Bytes::copy_from_slice(&payload),
    };
    let mut b = d::Publish::new(Bytes::copy_from_slice(&topic), Bytes::copy_from_slice(&payload), retain);
    b.verif_set_header(dup, dq, pkid);
    (c, b)
}

fn same_publish(c: &c4::Publish, b: &d::Publish) -> bool {
    let (dup, qos, pkid) = b.verif_header();
    c.dup == dup
        && qnum_c(c.qos) == qnum_d(qos)
        && c.pkid == pkid
        && c.retain == b.retain
        && c.topic.as_bytes() == &b.topic[..]
        && c.payload[..] == b.payload[..]
}

macro_rules! publish_instances {
    ($($name:ident, $T:literal, $P:literal, $Q:literal);* $(;)?) => { $(
        pub mod $name {
            use super::*;
            #[kani::proof]
            #[kani::unwind(7)]
            pub fn c2c() {
                let mut flags = 0u8;
                while flags < 4 {
                    let (c, _b) = any_publish::<$T, $P, $Q>(flags);
                    let mut buf = c_encode(&c4::Packet::Publish(c.clone()));
                    expect_client!(buf, c4::Packet::Publish(got) => *got == c, "C04: client publish round trip");
                    flags += 1;
                }
                kani::cover!(true, "all dup/retain combinations done");
            }
            #[kani::proof]
            #[kani::unwind(7)]
            pub fn d2c() {
                let mut flags = 0u8;
                while flags < 4 {
                    let (c, b) = any_publish::<$T, $P, $Q>(flags);
                    let buf = d_encode(d::Packet::Publish(b, None));
                    let buf_client = c_encode(&c4::Packet::Publish(c.clone()));
                    assert!(same_bytes(&buf, &buf_client), "C04: broker and client encoders produce different bytes for the same packet");
                    flags += 1;
                }
                kani::cover!(true, "all dup/retain combinations done");
            }
        }
    )* };
}

publish_instances! {
    publish_q0_t1_p0, 1, 0, 0;
    publish_q1_t1_p2, 1, 2, 1;
    publish_q2_t2_p1, 2, 1, 2;
    publish_q1_t1_p0, 1, 0, 1;
}

// ----------------------------------------------------------------------------- acks with only a packet id

macro_rules! pkid_only {
    ($($name:ident, $cty:ident, $dty:ident, $dctor:expr);* $(;)?) => { $(
        pub mod $name {
            use super::*;
            #[kani::proof]
            #[kani::unwind(6)]
            pub fn all_directions() {
                let pkid: u16 = kani::any();
                kani::assume(pkid != 0);
                let c = c4::$cty::new(pkid);
                let b: d::$dty = ($dctor)(pkid);
                let mut b1 = c_encode(&c4::Packet::$cty(c.clone()));
                expect_client!(b1, c4::Packet::$cty(got) => *got == c, "C04: client ack round trip");
                let b3 = d_encode(d::Packet::$dty(b.clone(), None));
                let b3_client = c_encode(&c4::Packet::$cty(c.clone()));
                assert!(same_bytes(&b3, &b3_client), "C04: broker and client encoders produce different bytes for the same packet");
                kani::cover!(pkid == 0xFFFF, "max pkid");
            }
        }
    )* };
}

pkid_only! {
    puback, PubAck, PubAck, |pkid| d::PubAck { pkid, reason: d::PubAckReason::Success };
    pubrec, PubRec, PubRec, |pkid| d::PubRec { pkid, reason: d::PubRecReason::Success };
    pubrel, PubRel, PubRel, |pkid| d::PubRel { pkid, reason: d::PubRelReason::Success };
    pubcomp, PubComp, PubComp, |pkid| d::PubComp { pkid, reason: d::PubCompReason::Success };
}

// ----------------------------------------------------------------------------- SUBSCRIBE / SUBACK / UNSUBSCRIBE / UNSUBACK

pub mod subscribe {
    use super::*;
    fn build<const N: usize>(two: bool) -> (c4::Subscribe, d::Subscribe) {
        let pkid: u16 = kani::any();
        kani::assume(pkid != 0);
        let f1 = ascii::<N>();
        let (cq1, dq1, _) = any_qos();
        let mut cf = vec![c4::SubscribeFilter::new(string_of(&f1), cq1)];
        let mut df = vec![d::Filter {
            path: string_of(&f1),
            qos: dq1,
            nolocal: false,
            preserve_retain: false,
            retain_forward_rule: d::RetainForwardRule::OnEverySubscribe,
        }];
        if two {
            let f2 = ascii::<1>();
            let (cq2, dq2, _) = any_qos();
            cf.push(c4::SubscribeFilter::new(string_of(&f2), cq2));
            df.push(d::Filter {
                path: string_of(&f2),
                qos: dq2,
                nolocal: false,
                preserve_retain: false,
                retain_forward_rule: d::RetainForwardRule::OnEverySubscribe,
            });
        }
        (c4::Subscribe { pkid, filters: cf }, d::Subscribe { pkid, filters: df })
    }
    fn same(c: &c4::Subscribe, b: &d::Subscribe) -> bool {
        if c.pkid != b.pkid || c.filters.len() != b.filters.len() {
            return false;
        }
        let mut i = 0;
        while i < c.filters.len() {
            if c.filters[i].path != b.filters[i].path || qnum_c(c.filters[i].qos) != qnum_d(b.filters[i].qos) {
                return false;
            }
            i += 1;
        }
        true
    }
    fn run<const N: usize>(two: bool) {
        let (c, b) = build::<N>(two);
        let mut b1 = c_encode(&c4::Packet::Subscribe(c.clone()));
        expect_client!(b1, c4::Packet::Subscribe(got) => *got == c, "C04: client subscribe round trip");
        kani::cover!(true, "done");
    }
    #[kani::proof]
    #[kani::unwind(6)]
    pub fn one_filter_len2() {
        run::<2>(false)
    }
    #[kani::proof]
    #[kani::unwind(6)]
    pub fn two_filters() {
        run::<1>(true)
    }
}

pub mod suback {
    use super::*;
    fn code() -> (c4::SubscribeReasonCode, d::SubscribeReasonCode) {
        let (cq, dq, _) = any_qos();
        if kani::any() {
            (c4::SubscribeReasonCode::Failure, d::SubscribeReasonCode::Failure)
        } else {
            (c4::SubscribeReasonCode::Success(cq), d::SubscribeReasonCode::Success(dq))
        }
    }
    #[kani::proof]
    #[kani::unwind(10)]
    pub fn two_codes() {
        let pkid: u16 = kani::any();
        kani::assume(pkid != 0);
        let (c1, d1) = code();
        let (c2, d2) = code();
        let c = c4::SubAck::new(pkid, vec![c1, c2]);
        let b = d::SubAck { pkid, return_codes: vec![d1, d2] };
        let b1 = d_encode(d::Packet::SubAck(b.clone(), None));
        let b1_client = c_encode(&c4::Packet::SubAck(c.clone()));
        assert!(same_bytes(&b1, &b1_client), "C04: broker and client encoders produce different bytes for the same packet");
        let mut b3 = c_encode(&c4::Packet::SubAck(c.clone()));
        expect_client!(b3, c4::Packet::SubAck(got) => *got == c, "C04: client suback round trip");
        kani::cover!(c1 == c4::SubscribeReasonCode::Failure, "failure code");
    }
}

pub mod unsubscribe {
    use super::*;
    #[kani::proof]
    #[kani::unwind(6)]
    pub fn two_topics() {
        let pkid: u16 = kani::any();
        kani::assume(pkid != 0);
        let t1 = ascii::<2>();
        let t2 = ascii::<1>();
        let c = c4::Unsubscribe { pkid, topics: vec![string_of(&t1), string_of(&t2)] };
        let b = d::Unsubscribe { pkid, filters: vec![string_of(&t1), string_of(&t2)] };
        let mut b1 = c_encode(&c4::Packet::Unsubscribe(c.clone()));
        expect_client!(b1, c4::Packet::Unsubscribe(got) => *got == c, "C04: client unsubscribe round trip");
        kani::cover!(true, "done");
    }
}

pub mod unsuback {
    use super::*;
    #[kani::proof]
    #[kani::unwind(6)]
    pub fn all_directions() {
        let pkid: u16 = kani::any();
        kani::assume(pkid != 0);
        let c = c4::UnsubAck::new(pkid);
        let b = d::UnsubAck { pkid, reasons: vec![] };
        let b1 = d_encode(d::Packet::UnsubAck(b.clone(), None));
        let b1_client = c_encode(&c4::Packet::UnsubAck(c.clone()));
        assert!(same_bytes(&b1, &b1_client), "C04: broker and client encoders produce different bytes for the same packet");
        let mut b3 = c_encode(&c4::Packet::UnsubAck(c.clone()));
        expect_client!(b3, c4::Packet::UnsubAck(got) => *got == c, "C04: client unsuback round trip");
        kani::cover!(true, "done");
    }
}

// ----------------------------------------------------------------------------- CONNACK, PING, DISCONNECT

pub mod connack {
    use super::*;
    #[kani::proof]
    #[kani::unwind(6)]
    pub fn all_directions() {
        let sp: bool = kani::any();
        let (cc, dc) = match kani::any::<u8>() % 6 {
            0 => (c4::ConnectReturnCode::Success, d::ConnectReturnCode::Success),
            1 => (c4::ConnectReturnCode::RefusedProtocolVersion, d::ConnectReturnCode::RefusedProtocolVersion),
            2 => (c4::ConnectReturnCode::BadClientId, d::ConnectReturnCode::ClientIdentifierNotValid),
            3 => (c4::ConnectReturnCode::ServiceUnavailable, d::ConnectReturnCode::ServiceUnavailable),
            4 => (c4::ConnectReturnCode::BadUserNamePassword, d::ConnectReturnCode::BadUserNamePassword),
            _ => (c4::ConnectReturnCode::NotAuthorized, d::ConnectReturnCode::NotAuthorized),
        };
        let c = c4::ConnAck::new(cc, sp);
        let b = d::ConnAck { session_present: sp, code: dc };
        let b1 = d_encode(d::Packet::ConnAck(b.clone(), None));
        let b1_client = c_encode(&c4::Packet::ConnAck(c.clone()));
        assert!(same_bytes(&b1, &b1_client), "C04: broker and client encoders produce different bytes for the same packet");
        let mut b3 = c_encode(&c4::Packet::ConnAck(c.clone()));
        expect_client!(b3, c4::Packet::ConnAck(got) => *got == c, "C04: client connack round trip");
        kani::cover!(sp, "session present");
    }
}

pub mod empty_packets {
    use super::*;
    #[kani::proof]
    #[kani::unwind(6)]
    pub fn ping_and_disconnect() {
        let mut a = c_encode(&c4::Packet::PingReq);
        expect_client!(a, c4::Packet::PingReq => true, "C04: pingreq client round trip");

        let r = d_encode(d::Packet::PingResp(d::PingResp));
        let r_client = c_encode(&c4::Packet::PingResp);
        assert!(same_bytes(&r, &r_client), "C04: broker and client encoders produce different bytes for the same packet");
        let mut x = c_encode(&c4::Packet::Disconnect);
        expect_client!(x, c4::Packet::Disconnect => true, "C04: disconnect client round trip");
        kani::cover!(true, "done");
    }
}

// ----------------------------------------------------------------------------- CONNECT (client round trip)

pub mod connect {
    use super::*;
    fn run<const ID: usize>(with_will: bool, with_login: bool) {
        let id = ascii::<ID>();
        let keep_alive: u16 = kani::any();
        let clean: bool = kani::any();
        let mut c = c4::Connect::new(string_of(&id));
        c.keep_alive = keep_alive;
        c.clean_session = clean;
        let wt = ascii::<1>();
        let wm: [u8; 1] = kani::any();
        let (wcq, _wdq, _) = any_qos();
        let wret: bool = kani::any();
        if with_will {
            c.last_will = Some(c4::LastWill::new(string_of(&wt), wm.to_vec(), wcq, wret));
        }
        let u = ascii::<1>();
        let p = ascii::<2>();
        if with_login {
            c.login = Some(c4::Login::new(string_of(&u), string_of(&p)));
        }
        let mut b1 = c_encode(&c4::Packet::Connect(c.clone()));
        expect_client!(b1, c4::Packet::Connect(got) => *got == c, "C04: client connect round trip");
        kani::cover!(true, "done");
    }
    #[kani::proof]
    #[kani::unwind(8)]
    pub fn plain_id2() {
        run::<2>(false, false)
    }
    #[kani::proof]
    #[kani::unwind(8)]
    pub fn login_only() {
        run::<1>(false, true)
    }
}


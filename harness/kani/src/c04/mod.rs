//! C04 - codecs round-trip every packet and interoperate between client and broker.
pub mod varint;
pub mod rt_v4;
pub mod rt_v5;

//! C04 (MQTT 5): fixed-size packets of the MQTT 5 client codec - encode -> decode round trip - and
//! MQTT 5 broker encoder == MQTT 5 client encoder, byte for byte.  Reason codes are CONCRETE per
//! instance (they decide the frame length: the "success, no properties" short form), packet ids
//! symbolic, no properties.  Same no-memcpy / never-drop discipline as rt_v4.rs.
use bytes::BytesMut;
use rumqttc::v5::mqttbytes::v5 as c5;
use rumqttd::protocol as d;
use rumqttd::protocol::v5::V5;
use rumqttd::protocol::Protocol;

fn c_encode(p: &c5::Packet) -> BytesMut {
    let mut buf = BytesMut::with_capacity(64);
    let w = p.write(&mut buf, None);
    match &w {
        Ok(n) => {
            assert!(*n == buf.len(), "codec: v5 client write() return value != bytes written");
            assert!(p.size() == buf.len(), "codec: v5 client size() != bytes written");
        }
        Err(_) => assert!(false, "codec: v5 client encoder rejected a well-formed packet"),
    }
    core::mem::forget(w);
    buf
}

fn d_encode(p: d::Packet) -> BytesMut {
    let mut buf = BytesMut::with_capacity(64);
    let w = V5.write(p, &mut buf);
    assert!(matches!(&w, Ok(n) if *n == buf.len()), "codec: v5 broker write() failed or returned a wrong size");
    core::mem::forget(w);
    buf
}

fn eq_at(a: &BytesMut, b: &BytesMut, i: usize) -> bool {
    i >= a.len() || a[i] == b[i]
}

fn same_bytes(a: &BytesMut, b: &BytesMut) -> bool {
    a.len() == b.len()
        && a.len() <= 8
        && eq_at(a, b, 0) && eq_at(a, b, 1) && eq_at(a, b, 2) && eq_at(a, b, 3)
        && eq_at(a, b, 4) && eq_at(a, b, 5) && eq_at(a, b, 6) && eq_at(a, b, 7)
}

macro_rules! expect_client5 {
    ($buf:expr, $pat:pat => $cond:expr, $msg:literal) => {{
        let r = c5::Packet::read(&mut $buf, None);
        let ok = match &r {
            Ok($pat) => $cond,
            _ => false,
        };
        assert!(ok, $msg);
        assert!($buf.is_empty(), "codec: v5 client decoder did not consume exactly the frame");
        core::mem::forget(r);
    }};
}

macro_rules! ack5 {
    ($($name:ident, $cty:ident, $creason:expr, $dreason:expr);* $(;)?) => { $(
        #[kani::proof]
        #[kani::unwind(6)]
        pub fn $name() {
            let pkid: u16 = kani::any();
            kani::assume(pkid != 0);
            let mut c = c5::$cty::new(pkid, None);
            c.reason = $creason;
            let mut b1 = c_encode(&c5::Packet::$cty(c.clone()));
            let b2 = c_encode(&c5::Packet::$cty(c.clone()));
            expect_client5!(b1, c5::Packet::$cty(got) => *got == c, "codec: v5 client ack round trip");
            let b3 = d_encode(d::Packet::$cty(d::$cty { pkid, reason: $dreason }, None));
            assert!(same_bytes(&b2, &b3), "codec: v5 broker and v5 client encoders produce different bytes for the same packet");
            kani::cover!(pkid == 0xFFFF, "max pkid");
        }
    )* };
}

ack5! {
    puback_success, PubAck, c5::PubAckReason::Success, d::PubAckReason::Success;
    puback_failure, PubAck, c5::PubAckReason::NotAuthorized, d::PubAckReason::NotAuthorized;
    pubrec_success, PubRec, c5::PubRecReason::Success, d::PubRecReason::Success;
    pubrec_failure, PubRec, c5::PubRecReason::QuotaExceeded, d::PubRecReason::QuotaExceeded;
    pubrel_success, PubRel, c5::PubRelReason::Success, d::PubRelReason::Success;
    pubrel_notfound, PubRel, c5::PubRelReason::PacketIdentifierNotFound, d::PubRelReason::PacketIdentifierNotFound;
    pubcomp_success, PubComp, c5::PubCompReason::Success, d::PubCompReason::Success;
    pubcomp_notfound, PubComp, c5::PubCompReason::PacketIdentifierNotFound, d::PubCompReason::PacketIdentifierNotFound;
}

#[kani::proof]
#[kani::unwind(6)]
pub fn pings() {
    let mut a = c_encode(&c5::Packet::PingReq(c5::PingReq));
    expect_client5!(a, c5::Packet::PingReq(_) => true, "codec: v5 pingreq round trip");
    let mut r = d_encode(d::Packet::PingResp(d::PingResp));
    expect_client5!(r, c5::Packet::PingResp(_) => true, "codec: v5 pingresp broker -> client");
    kani::cover!(true, "done");
}

/// DISCONNECT: the broker's router sends these to MQTT 5 links (session taken over, shutdown ...)
macro_rules! disconnect5 {
    ($($name:ident, $creason:expr, $dreason:expr);* $(;)?) => { $(
        #[kani::proof]
        #[kani::unwind(6)]
        pub fn $name() {
            let c = c5::Disconnect::new($creason);
            let mut b1 = c_encode(&c5::Packet::Disconnect(c.clone()));
            let b2 = c_encode(&c5::Packet::Disconnect(c.clone()));
            expect_client5!(b1, c5::Packet::Disconnect(got) => got.reason_code == c.reason_code, "codec: v5 client disconnect round trip");
            let mut b3 = d_encode(d::Packet::Disconnect(d::Disconnect { reason_code: $dreason }, None));
            assert!(same_bytes(&b2, &b3), "codec: v5 broker and v5 client encoders produce different DISCONNECT bytes");
            expect_client5!(b3, c5::Packet::Disconnect(got) => got.reason_code == c.reason_code, "codec: broker-encoded v5 DISCONNECT does not decode in the client");
            kani::cover!(true, "done");
        }
    )* };
}

disconnect5! {
    disconnect_normal, c5::DisconnectReasonCode::NormalDisconnection, d::DisconnectReasonCode::NormalDisconnection;
}

/// with a reason code: encoders only (size == bytes written == return value, client == broker, and the
/// declared remaining length covers exactly what follows); decoding the property block does not finish
macro_rules! disconnect5_encoders {
    ($($name:ident, $creason:expr, $dreason:expr);* $(;)?) => { $(
        #[kani::proof]
        #[kani::unwind(6)]
        pub fn $name() {
            let c = c5::Disconnect::new($creason);
            let b2 = c_encode(&c5::Packet::Disconnect(c.clone()));
            let b3 = d_encode(d::Packet::Disconnect(d::Disconnect { reason_code: $dreason }, None));
            assert!(same_bytes(&b2, &b3), "codec: v5 broker and v5 client encoders produce different DISCONNECT bytes");
            assert!(b2.len() >= 2 && b2[1] as usize == b2.len() - 2, "codec: v5 DISCONNECT declares a remaining length different from what it writes");
            kani::cover!(true, "done");
        }
    )* };
}

disconnect5_encoders! {
    disconnect_takenover, c5::DisconnectReasonCode::SessionTakenOver, d::DisconnectReasonCode::SessionTakenOver;
    disconnect_shutdown, c5::DisconnectReasonCode::ServerShuttingDown, d::DisconnectReasonCode::ServerShuttingDown;
}

//! C04 layer 1: the remaining-length variable byte integer, unbounded in value.
//!
//! For EVERY `len: usize` (no bound): `write_remaining_length(len)` errs iff
//! len > 268_435_455, otherwise writes exactly `len_len(len)` bytes, these are the
//! bytes of the reference encoding, and `length()` on them (with or without trailing
//! garbage) returns `(len_len(len), len)`. One harness per codec copy.
//! Loop bounds: both loops run at most 4 times (4 x 7 bits) -> unwind 6.
use crate::util::*;
use bytes::BytesMut;

macro_rules! varint_roundtrip {
    ($name:ident, $write:path, $length:path, $lenlen:path) => {
        #[kani::proof]
        #[kani::unwind(6)]
        pub fn $name() {
            let len: usize = kani::any();
            let mut buf = BytesMut::new();
            let r = $write(&mut buf, len);
            if len > 268_435_455 {
                assert!(r.is_err(), "varint: over-long length must be rejected");
                assert!(buf.is_empty(), "varint: nothing written on error");
                kani::cover!(true, "too long");
                return;
            }
            let n = match r {
                Ok(n) => n,
                Err(_) => {
                    assert!(false, "varint: encodable length rejected");
                    return;
                }
            };
            let (refb, refn) = ref_varint(len);
            assert!(n == refn, "varint: count != reference count");
            assert!(n == buf.len(), "varint: returned count != bytes written");
            assert!(n == $lenlen(len), "varint: len_len() disagrees with bytes written");
            assert!(buf[0] == refb[0], "varint: byte 0");
            if n > 1 {
                assert!(buf[1] == refb[1], "varint: byte 1");
            }
            if n > 2 {
                assert!(buf[2] == refb[2], "varint: byte 2");
            }
            if n > 3 {
                assert!(buf[3] == refb[3], "varint: byte 3");
            }
            // decode what was encoded, followed by one arbitrary trailing byte
            let trailing: u8 = kani::any();
            let mut wire = [0u8; 5];
            wire[0] = refb[0];
            wire[1] = refb[1];
            wire[2] = refb[2];
            wire[3] = refb[3];
            wire[n] = trailing;
            let with_tail: bool = kani::any();
            let upto = if with_tail { n + 1 } else { n };
            match $length(wire[..upto].iter()) {
                Ok((ll, l)) => {
                    assert!(ll == n, "varint: decoded width != encoded width");
                    assert!(l == len, "varint: decode(encode(len)) != len");
                }
                Err(_) => assert!(false, "varint: own encoding not decodable"),
            }
            kani::cover!(len == 127, "127");
            kani::cover!(len == 128, "128");
            kani::cover!(len == 16_383, "16383");
            kani::cover!(len == 16_384, "16384");
            kani::cover!(len == 2_097_151, "2097151");
            kani::cover!(len == 2_097_152, "2097152");
            kani::cover!(len == 268_435_455, "max");
        }
    };
}

varint_roundtrip!(
    rumqttc_v4,
    rumqttc::mqttbytes::verif_api::write_remaining_length,
    rumqttc::mqttbytes::verif_api::length,
    rumqttc::mqttbytes::v4::verif_len_len
);
varint_roundtrip!(
    rumqttc_v5,
    rumqttc::v5::mqttbytes::v5::verif_api::write_remaining_length,
    rumqttc::v5::mqttbytes::v5::verif_api::length,
    rumqttc::v5::mqttbytes::v5::verif_api::len_len
);
varint_roundtrip!(
    rumqttd_v4,
    rumqttd::protocol::v4::verif_api::write_remaining_length,
    rumqttd::protocol::v4::verif_api::length,
    rumqttd::protocol::v4::verif_api::len_len
);
varint_roundtrip!(
    rumqttd_v5,
    rumqttd::protocol::v5::verif_api::write_remaining_length,
    rumqttd::protocol::v5::verif_api::length,
    rumqttd::protocol::v5::verif_api::len_len
);

//! C12 - topic-filter matching and validation follow the MQTT rules in every copy.
//!
//! Real code: `matches`, `valid_filter`, `valid_topic`, `has_wildcards` of
//! rumqttc::mqttbytes::topic (client v4), rumqttc::v5::mqttbytes (client v5) and
//! rumqttd::protocol (broker).
//!
//! Inputs: topic and filter as byte arrays of CONCRETE length (one harness instance per
//! length pair so every str loop unrolls exactly) with SYMBOLIC contents over the alphabet
//! { 'a', 'A', '/', '+', '#', '$', 'e-acute' (2 bytes C3 A9) } - letters in both cases, the
//! level separator, both wildcards, the '$' prefix and a multi-byte character.  Strings are
//! formed with from_utf8_unchecked after the alphabet assumption (which implies valid UTF-8).
//! Oracle: byte-level reference matcher / validators written from the rules in the property.
//! Stubs: core::slice::memchr::{memchr, memrchr} replaced by byte loops (same contract).
use crate::util::*;

pub fn alphabet_ok(b: &[u8]) -> bool {
    let n = b.len();
    let mut i = 0;
    while i < n {
        let c = b[i];
        let ascii = c == b'a' || c == b'A' || c == b'/' || c == b'+' || c == b'#' || c == b'$';
        let lead = c == 0xC3 && i + 1 < n && b[i + 1] == 0xA9;
        let cont = c == 0xA9 && i > 0 && b[i - 1] == 0xC3;
        if !(ascii || lead || cont) {
            return false;
        }
        i += 1;
    }
    true
}

fn next_slash(s: &[u8], from: usize) -> usize {
    let mut i = from;
    while i < s.len() && s[i] != b'/' {
        i += 1;
    }
    i
}

fn has(s: &[u8], c: u8) -> bool {
    let mut i = 0;
    while i < s.len() {
        if s[i] == c {
            return true;
        }
        i += 1;
    }
    false
}

fn eq(a: &[u8], b: &[u8]) -> bool {
    if a.len() != b.len() {
        return false;
    }
    let mut i = 0;
    while i < a.len() {
        if a[i] != b[i] {
            return false;
        }
        i += 1;
    }
    true
}

/// MQTT 3.1.1 section 4.7.1: wildcards only as whole levels, '#' only as the last level; non-empty.
pub fn ref_valid_filter(f: &[u8]) -> bool {
    if f.is_empty() {
        return false;
    }
    let mut i = 0;
    loop {
        let e = next_slash(f, i);
        let level = &f[i..e];
        let last = e == f.len();
        if has(level, b'#') && !(level.len() == 1 && last) {
            return false;
        }
        if has(level, b'+') && level.len() != 1 {
            return false;
        }
        if last {
            return true;
        }
        i = e + 1;
    }
}

/// topic names contain no wildcards
pub fn ref_valid_topic(t: &[u8]) -> bool {
    !has(t, b'+') && !has(t, b'#')
}

/// Matching rules for a valid topic name against a valid filter (+ this code base's
/// documented rule that a topic starting with '$' is matched by no filter).
pub fn ref_matches(t: &[u8], f: &[u8]) -> bool {
    if !t.is_empty() && t[0] == b'$' {
        return false;
    }
    let mut ti = 0;
    let mut fi = 0;
    loop {
        let fe = next_slash(f, fi);
        let flevel = &f[fi..fe];
        if eq(flevel, b"#") {
            return true; // multi-level wildcard: the rest, including the parent level
        }
        let te = next_slash(t, ti);
        if !(eq(flevel, b"+") || eq(flevel, &t[ti..te])) {
            return false;
        }
        let f_more = fe < f.len();
        let t_more = te < t.len();
        if !f_more {
            return !t_more;
        }
        if !t_more {
            // topic exhausted: only a trailing "#" still matches (the parent)
            return eq(&f[fe + 1..], b"#");
        }
        fi = fe + 1;
        ti = te + 1;
    }
}

/// byte-loop replacements for the word-at-a-time searchers (same contract)
pub fn memchr_stub(x: u8, text: &[u8]) -> Option<usize> {
    let mut i = 0;
    while i < text.len() {
        if text[i] == x {
            return Some(i);
        }
        i += 1;
    }
    None
}

pub fn memrchr_stub(x: u8, text: &[u8]) -> Option<usize> {
    let mut i = text.len();
    while i > 0 {
        i -= 1;
        if text[i] == x {
            return Some(i);
        }
    }
    None
}

macro_rules! c12_proof {
    ($unwind:literal, $name:ident, $body:block) => {
        #[kani::proof]
        #[kani::unwind($unwind)]
        #[kani::stub(core::slice::memchr::memchr, crate::c12::memchr_stub)]
        #[kani::stub(core::slice::memchr::memrchr, crate::c12::memrchr_stub)]
        pub fn $name() $body
    };
}

/// one (copy, |t|, |f|) instance: `matches` alone (one real function per harness keeps the
/// formula small), judged by the reference on valid pairs, never panicking on any pair.
macro_rules! matches_instance {
    ($name:ident, $matches:path, $T:literal, $F:literal) => {
        c12_proof!(7, $name, {
            let tb: [u8; $T] = kani::any();
            let fb: [u8; $F] = kani::any();
            kani::assume(alphabet_ok(&tb) && alphabet_ok(&fb));
            let t = unsafe { core::str::from_utf8_unchecked(&tb) };
            let f = unsafe { core::str::from_utf8_unchecked(&fb) };
            // never panics on any pair (CBMC checks the str slicing inside)
            let got = $matches(t, f);
            let vt = ref_valid_topic(&tb);
            let vf = ref_valid_filter(&fb);
            if vt && vf {
                assert!(got == ref_matches(&tb, &fb), "matches: differs from the MQTT rules");
            }
            if tb.first() == Some(&b'$') {
                assert!(!got, "matches: a $-topic must be matched by no filter");
            }
            // (no valid filter of 0 bytes; no 4-byte filter matches the empty topic)
            kani::cover!($F == 0 || ($T == 0 && $F >= 4) || (vt && vf && got), "valid pair that matches");
            kani::cover!(($T == 0 && $F == 0) || (vt && !got), "pair that does not match");
        });
    };
}

/// the three copies agree on every pair (valid or not)
macro_rules! agree_instance {
    ($name:ident, $T:literal, $F:literal) => {
        c12_proof!(7, $name, {
            let tb: [u8; $T] = kani::any();
            let fb: [u8; $F] = kani::any();
            kani::assume(alphabet_ok(&tb) && alphabet_ok(&fb));
            let t = unsafe { core::str::from_utf8_unchecked(&tb) };
            let f = unsafe { core::str::from_utf8_unchecked(&fb) };
            let a = rumqttc::mqttbytes::matches(t, f);
            let b = rumqttc::v5::mqttbytes::matches(t, f);
            let c = rumqttd::protocol::matches(t, f);
            assert!(a == b, "matches: client v4 and client v5 disagree");
            assert!(a == c, "matches: client and broker disagree");
            kani::cover!(!a, "agreeing non-match");
        });
    };
}

/// one validator of one copy on strings of N bytes against the reference
macro_rules! validator_instance {
    ($name:ident, $f:path, $reference:expr, $label:literal, $N:literal) => {
        c12_proof!(8, $name, {
            let sb: [u8; $N] = kani::any();
            kani::assume(alphabet_ok(&sb));
            let s = unsafe { core::str::from_utf8_unchecked(&sb) };
            let want: bool = $reference(&sb);
            assert!($f(s) == want, $label);
            kani::cover!(want || $N < 2, "accepted");
            kani::cover!(!want || $N < 2, "rejected");
        });
    };
}

fn ref_has_wildcards(s: &[u8]) -> bool {
    !ref_valid_topic(s)
}

matches_instance!(m_c4_t0_f0, rumqttc::mqttbytes::matches, 0, 0);
matches_instance!(m_c5_t0_f0, rumqttc::v5::mqttbytes::matches, 0, 0);
matches_instance!(m_d_t0_f0, rumqttd::protocol::matches, 0, 0);
agree_instance!(agree_t0_f0, 0, 0);
matches_instance!(m_c4_t0_f1, rumqttc::mqttbytes::matches, 0, 1);
matches_instance!(m_c5_t0_f1, rumqttc::v5::mqttbytes::matches, 0, 1);
matches_instance!(m_d_t0_f1, rumqttd::protocol::matches, 0, 1);
agree_instance!(agree_t0_f1, 0, 1);
matches_instance!(m_c4_t0_f2, rumqttc::mqttbytes::matches, 0, 2);
matches_instance!(m_c5_t0_f2, rumqttc::v5::mqttbytes::matches, 0, 2);
matches_instance!(m_d_t0_f2, rumqttd::protocol::matches, 0, 2);
agree_instance!(agree_t0_f2, 0, 2);
matches_instance!(m_c4_t0_f3, rumqttc::mqttbytes::matches, 0, 3);
matches_instance!(m_c5_t0_f3, rumqttc::v5::mqttbytes::matches, 0, 3);
matches_instance!(m_d_t0_f3, rumqttd::protocol::matches, 0, 3);
agree_instance!(agree_t0_f3, 0, 3);
matches_instance!(m_c4_t0_f4, rumqttc::mqttbytes::matches, 0, 4);
matches_instance!(m_c5_t0_f4, rumqttc::v5::mqttbytes::matches, 0, 4);
matches_instance!(m_d_t0_f4, rumqttd::protocol::matches, 0, 4);
agree_instance!(agree_t0_f4, 0, 4);
matches_instance!(m_c4_t1_f0, rumqttc::mqttbytes::matches, 1, 0);
matches_instance!(m_c5_t1_f0, rumqttc::v5::mqttbytes::matches, 1, 0);
matches_instance!(m_d_t1_f0, rumqttd::protocol::matches, 1, 0);
agree_instance!(agree_t1_f0, 1, 0);
matches_instance!(m_c4_t1_f1, rumqttc::mqttbytes::matches, 1, 1);
matches_instance!(m_c5_t1_f1, rumqttc::v5::mqttbytes::matches, 1, 1);
matches_instance!(m_d_t1_f1, rumqttd::protocol::matches, 1, 1);
agree_instance!(agree_t1_f1, 1, 1);
matches_instance!(m_c4_t1_f2, rumqttc::mqttbytes::matches, 1, 2);
matches_instance!(m_c5_t1_f2, rumqttc::v5::mqttbytes::matches, 1, 2);
matches_instance!(m_d_t1_f2, rumqttd::protocol::matches, 1, 2);
agree_instance!(agree_t1_f2, 1, 2);
matches_instance!(m_c4_t1_f3, rumqttc::mqttbytes::matches, 1, 3);
matches_instance!(m_c5_t1_f3, rumqttc::v5::mqttbytes::matches, 1, 3);
matches_instance!(m_d_t1_f3, rumqttd::protocol::matches, 1, 3);
agree_instance!(agree_t1_f3, 1, 3);
matches_instance!(m_c4_t1_f4, rumqttc::mqttbytes::matches, 1, 4);
matches_instance!(m_c5_t1_f4, rumqttc::v5::mqttbytes::matches, 1, 4);
matches_instance!(m_d_t1_f4, rumqttd::protocol::matches, 1, 4);
agree_instance!(agree_t1_f4, 1, 4);
matches_instance!(m_c4_t2_f0, rumqttc::mqttbytes::matches, 2, 0);
matches_instance!(m_c5_t2_f0, rumqttc::v5::mqttbytes::matches, 2, 0);
matches_instance!(m_d_t2_f0, rumqttd::protocol::matches, 2, 0);
agree_instance!(agree_t2_f0, 2, 0);
matches_instance!(m_c4_t2_f1, rumqttc::mqttbytes::matches, 2, 1);
matches_instance!(m_c5_t2_f1, rumqttc::v5::mqttbytes::matches, 2, 1);
matches_instance!(m_d_t2_f1, rumqttd::protocol::matches, 2, 1);
agree_instance!(agree_t2_f1, 2, 1);
matches_instance!(m_c4_t2_f2, rumqttc::mqttbytes::matches, 2, 2);
matches_instance!(m_c5_t2_f2, rumqttc::v5::mqttbytes::matches, 2, 2);
matches_instance!(m_d_t2_f2, rumqttd::protocol::matches, 2, 2);
agree_instance!(agree_t2_f2, 2, 2);
matches_instance!(m_c4_t2_f3, rumqttc::mqttbytes::matches, 2, 3);
matches_instance!(m_c5_t2_f3, rumqttc::v5::mqttbytes::matches, 2, 3);
matches_instance!(m_d_t2_f3, rumqttd::protocol::matches, 2, 3);
agree_instance!(agree_t2_f3, 2, 3);
matches_instance!(m_c4_t2_f4, rumqttc::mqttbytes::matches, 2, 4);
matches_instance!(m_c5_t2_f4, rumqttc::v5::mqttbytes::matches, 2, 4);
matches_instance!(m_d_t2_f4, rumqttd::protocol::matches, 2, 4);
agree_instance!(agree_t2_f4, 2, 4);
matches_instance!(m_c4_t3_f0, rumqttc::mqttbytes::matches, 3, 0);
matches_instance!(m_c5_t3_f0, rumqttc::v5::mqttbytes::matches, 3, 0);
matches_instance!(m_d_t3_f0, rumqttd::protocol::matches, 3, 0);
agree_instance!(agree_t3_f0, 3, 0);
matches_instance!(m_c4_t3_f1, rumqttc::mqttbytes::matches, 3, 1);
matches_instance!(m_c5_t3_f1, rumqttc::v5::mqttbytes::matches, 3, 1);
matches_instance!(m_d_t3_f1, rumqttd::protocol::matches, 3, 1);
agree_instance!(agree_t3_f1, 3, 1);
matches_instance!(m_c4_t3_f2, rumqttc::mqttbytes::matches, 3, 2);
matches_instance!(m_c5_t3_f2, rumqttc::v5::mqttbytes::matches, 3, 2);
matches_instance!(m_d_t3_f2, rumqttd::protocol::matches, 3, 2);
agree_instance!(agree_t3_f2, 3, 2);
matches_instance!(m_c4_t3_f3, rumqttc::mqttbytes::matches, 3, 3);
matches_instance!(m_c5_t3_f3, rumqttc::v5::mqttbytes::matches, 3, 3);
matches_instance!(m_d_t3_f3, rumqttd::protocol::matches, 3, 3);
agree_instance!(agree_t3_f3, 3, 3);
matches_instance!(m_c4_t3_f4, rumqttc::mqttbytes::matches, 3, 4);
matches_instance!(m_c5_t3_f4, rumqttc::v5::mqttbytes::matches, 3, 4);
matches_instance!(m_d_t3_f4, rumqttd::protocol::matches, 3, 4);
agree_instance!(agree_t3_f4, 3, 4);
matches_instance!(m_c4_t4_f0, rumqttc::mqttbytes::matches, 4, 0);
matches_instance!(m_c5_t4_f0, rumqttc::v5::mqttbytes::matches, 4, 0);
matches_instance!(m_d_t4_f0, rumqttd::protocol::matches, 4, 0);
agree_instance!(agree_t4_f0, 4, 0);
matches_instance!(m_c4_t4_f1, rumqttc::mqttbytes::matches, 4, 1);
matches_instance!(m_c5_t4_f1, rumqttc::v5::mqttbytes::matches, 4, 1);
matches_instance!(m_d_t4_f1, rumqttd::protocol::matches, 4, 1);
agree_instance!(agree_t4_f1, 4, 1);
matches_instance!(m_c4_t4_f2, rumqttc::mqttbytes::matches, 4, 2);
matches_instance!(m_c5_t4_f2, rumqttc::v5::mqttbytes::matches, 4, 2);
matches_instance!(m_d_t4_f2, rumqttd::protocol::matches, 4, 2);
agree_instance!(agree_t4_f2, 4, 2);
matches_instance!(m_c4_t4_f3, rumqttc::mqttbytes::matches, 4, 3);
matches_instance!(m_c5_t4_f3, rumqttc::v5::mqttbytes::matches, 4, 3);
matches_instance!(m_d_t4_f3, rumqttd::protocol::matches, 4, 3);
agree_instance!(agree_t4_f3, 4, 3);
matches_instance!(m_c4_t4_f4, rumqttc::mqttbytes::matches, 4, 4);
matches_instance!(m_c5_t4_f4, rumqttc::v5::mqttbytes::matches, 4, 4);
matches_instance!(m_d_t4_f4, rumqttd::protocol::matches, 4, 4);
agree_instance!(agree_t4_f4, 4, 4);
validator_instance!(vf_c4_n0, rumqttc::mqttbytes::valid_filter, ref_valid_filter, "valid_filter: differs from the MQTT rule", 0);
validator_instance!(vt_c4_n0, rumqttc::mqttbytes::valid_topic, ref_valid_topic, "valid_topic: differs from the MQTT rule", 0);
validator_instance!(hw_c4_n0, rumqttc::mqttbytes::has_wildcards, ref_has_wildcards, "has_wildcards: differs from the MQTT rule", 0);
validator_instance!(vf_c5_n0, rumqttc::v5::mqttbytes::valid_filter, ref_valid_filter, "valid_filter: differs from the MQTT rule", 0);
validator_instance!(vt_c5_n0, rumqttc::v5::mqttbytes::valid_topic, ref_valid_topic, "valid_topic: differs from the MQTT rule", 0);
validator_instance!(hw_c5_n0, rumqttc::v5::mqttbytes::has_wildcards, ref_has_wildcards, "has_wildcards: differs from the MQTT rule", 0);
validator_instance!(vf_d_n0, rumqttd::protocol::valid_filter, ref_valid_filter, "valid_filter: differs from the MQTT rule", 0);
validator_instance!(vt_d_n0, rumqttd::protocol::valid_topic, ref_valid_topic, "valid_topic: differs from the MQTT rule", 0);
validator_instance!(hw_d_n0, rumqttd::protocol::has_wildcards, ref_has_wildcards, "has_wildcards: differs from the MQTT rule", 0);
validator_instance!(vf_c4_n1, rumqttc::mqttbytes::valid_filter, ref_valid_filter, "valid_filter: differs from the MQTT rule", 1);
validator_instance!(vt_c4_n1, rumqttc::mqttbytes::valid_topic, ref_valid_topic, "valid_topic: differs from the MQTT rule", 1);
validator_instance!(hw_c4_n1, rumqttc::mqttbytes::has_wildcards, ref_has_wildcards, "has_wildcards: differs from the MQTT rule", 1);
validator_instance!(vf_c5_n1, rumqttc::v5::mqttbytes::valid_filter, ref_valid_filter, "valid_filter: differs from the MQTT rule", 1);
validator_instance!(vt_c5_n1, rumqttc::v5::mqttbytes::valid_topic, ref_valid_topic, "valid_topic: differs from the MQTT rule", 1);
validator_instance!(hw_c5_n1, rumqttc::v5::mqttbytes::has_wildcards, ref_has_wildcards, "has_wildcards: differs from the MQTT rule", 1);
validator_instance!(vf_d_n1, rumqttd::protocol::valid_filter, ref_valid_filter, "valid_filter: differs from the MQTT rule", 1);
validator_instance!(vt_d_n1, rumqttd::protocol::valid_topic, ref_valid_topic, "valid_topic: differs from the MQTT rule", 1);
validator_instance!(hw_d_n1, rumqttd::protocol::has_wildcards, ref_has_wildcards, "has_wildcards: differs from the MQTT rule", 1);
validator_instance!(vf_c4_n2, rumqttc::mqttbytes::valid_filter, ref_valid_filter, "valid_filter: differs from the MQTT rule", 2);
validator_instance!(vt_c4_n2, rumqttc::mqttbytes::valid_topic, ref_valid_topic, "valid_topic: differs from the MQTT rule", 2);
validator_instance!(hw_c4_n2, rumqttc::mqttbytes::has_wildcards, ref_has_wildcards, "has_wildcards: differs from the MQTT rule", 2);
validator_instance!(vf_c5_n2, rumqttc::v5::mqttbytes::valid_filter, ref_valid_filter, "valid_filter: differs from the MQTT rule", 2);
validator_instance!(vt_c5_n2, rumqttc::v5::mqttbytes::valid_topic, ref_valid_topic, "valid_topic: differs from the MQTT rule", 2);
validator_instance!(hw_c5_n2, rumqttc::v5::mqttbytes::has_wildcards, ref_has_wildcards, "has_wildcards: differs from the MQTT rule", 2);
validator_instance!(vf_d_n2, rumqttd::protocol::valid_filter, ref_valid_filter, "valid_filter: differs from the MQTT rule", 2);
validator_instance!(vt_d_n2, rumqttd::protocol::valid_topic, ref_valid_topic, "valid_topic: differs from the MQTT rule", 2);
validator_instance!(hw_d_n2, rumqttd::protocol::has_wildcards, ref_has_wildcards, "has_wildcards: differs from the MQTT rule", 2);
validator_instance!(vf_c4_n3, rumqttc::mqttbytes::valid_filter, ref_valid_filter, "valid_filter: differs from the MQTT rule", 3);
validator_instance!(vt_c4_n3, rumqttc::mqttbytes::valid_topic, ref_valid_topic, "valid_topic: differs from the MQTT rule", 3);
validator_instance!(hw_c4_n3, rumqttc::mqttbytes::has_wildcards, ref_has_wildcards, "has_wildcards: differs from the MQTT rule", 3);
validator_instance!(vf_c5_n3, rumqttc::v5::mqttbytes::valid_filter, ref_valid_filter, "valid_filter: differs from the MQTT rule", 3);
validator_instance!(vt_c5_n3, rumqttc::v5::mqttbytes::valid_topic, ref_valid_topic, "valid_topic: differs from the MQTT rule", 3);
validator_instance!(hw_c5_n3, rumqttc::v5::mqttbytes::has_wildcards, ref_has_wildcards, "has_wildcards: differs from the MQTT rule", 3);
validator_instance!(vf_d_n3, rumqttd::protocol::valid_filter, ref_valid_filter, "valid_filter: differs from the MQTT rule", 3);
validator_instance!(vt_d_n3, rumqttd::protocol::valid_topic, ref_valid_topic, "valid_topic: differs from the MQTT rule", 3);
validator_instance!(hw_d_n3, rumqttd::protocol::has_wildcards, ref_has_wildcards, "has_wildcards: differs from the MQTT rule", 3);
validator_instance!(vf_c4_n4, rumqttc::mqttbytes::valid_filter, ref_valid_filter, "valid_filter: differs from the MQTT rule", 4);
validator_instance!(vt_c4_n4, rumqttc::mqttbytes::valid_topic, ref_valid_topic, "valid_topic: differs from the MQTT rule", 4);
validator_instance!(hw_c4_n4, rumqttc::mqttbytes::has_wildcards, ref_has_wildcards, "has_wildcards: differs from the MQTT rule", 4);
validator_instance!(vf_c5_n4, rumqttc::v5::mqttbytes::valid_filter, ref_valid_filter, "valid_filter: differs from the MQTT rule", 4);
validator_instance!(vt_c5_n4, rumqttc::v5::mqttbytes::valid_topic, ref_valid_topic, "valid_topic: differs from the MQTT rule", 4);
validator_instance!(hw_c5_n4, rumqttc::v5::mqttbytes::has_wildcards, ref_has_wildcards, "has_wildcards: differs from the MQTT rule", 4);
validator_instance!(vf_d_n4, rumqttd::protocol::valid_filter, ref_valid_filter, "valid_filter: differs from the MQTT rule", 4);
validator_instance!(vt_d_n4, rumqttd::protocol::valid_topic, ref_valid_topic, "valid_topic: differs from the MQTT rule", 4);
validator_instance!(hw_d_n4, rumqttd::protocol::has_wildcards, ref_has_wildcards, "has_wildcards: differs from the MQTT rule", 4);
validator_instance!(vf_c4_n5, rumqttc::mqttbytes::valid_filter, ref_valid_filter, "valid_filter: differs from the MQTT rule", 5);
validator_instance!(vt_c4_n5, rumqttc::mqttbytes::valid_topic, ref_valid_topic, "valid_topic: differs from the MQTT rule", 5);
validator_instance!(hw_c4_n5, rumqttc::mqttbytes::has_wildcards, ref_has_wildcards, "has_wildcards: differs from the MQTT rule", 5);
validator_instance!(vf_c5_n5, rumqttc::v5::mqttbytes::valid_filter, ref_valid_filter, "valid_filter: differs from the MQTT rule", 5);
validator_instance!(vt_c5_n5, rumqttc::v5::mqttbytes::valid_topic, ref_valid_topic, "valid_topic: differs from the MQTT rule", 5);
validator_instance!(hw_c5_n5, rumqttc::v5::mqttbytes::has_wildcards, ref_has_wildcards, "has_wildcards: differs from the MQTT rule", 5);
validator_instance!(vf_d_n5, rumqttd::protocol::valid_filter, ref_valid_filter, "valid_filter: differs from the MQTT rule", 5);
validator_instance!(vt_d_n5, rumqttd::protocol::valid_topic, ref_valid_topic, "valid_topic: differs from the MQTT rule", 5);
validator_instance!(hw_d_n5, rumqttd::protocol::has_wildcards, ref_has_wildcards, "has_wildcards: differs from the MQTT rule", 5);

//! Reference models (oracles) and small helpers shared by the harnesses.

/// Result of the reference fixed-header / framing decoder, written directly from
/// MQTT 3.1.1 section 2.2 / MQTT 5 section 2.1 (one type byte, then a 1..=4 byte
/// little-endian base-128 variable byte integer).
#[derive(Debug, Clone, Copy, PartialEq, Eq)]
pub enum RefHdr {
    /// header itself (type byte + varint) is not complete yet
    HeaderIncomplete,
    /// 4th length byte still has its continuation bit set
    Malformed,
    /// header complete: (byte1, header_len, remaining_len)
    Hdr(u8, usize, usize),
}

/// Reference header decoder over a plain slice. Loop-free on purpose.
pub fn ref_header(b: &[u8]) -> RefHdr {
    let n = b.len();
    if n < 2 {
        return RefHdr::HeaderIncomplete;
    }
    let b1 = b[1] as usize;
    if b1 & 0x80 == 0 {
        return RefHdr::Hdr(b[0], 2, b1);
    }
    if n < 3 {
        return RefHdr::HeaderIncomplete;
    }
    let b2 = b[2] as usize;
    if b2 & 0x80 == 0 {
        return RefHdr::Hdr(b[0], 3, (b1 & 0x7f) | (b2 << 7));
    }
    if n < 4 {
        return RefHdr::HeaderIncomplete;
    }
    let b3 = b[3] as usize;
    if b3 & 0x80 == 0 {
        return RefHdr::Hdr(b[0], 4, (b1 & 0x7f) | ((b2 & 0x7f) << 7) | (b3 << 14));
    }
    if n < 5 {
        return RefHdr::HeaderIncomplete;
    }
    let b4 = b[4] as usize;
    if b4 & 0x80 == 0 {
        return RefHdr::Hdr(
            b[0],
            5,
            (b1 & 0x7f) | ((b2 & 0x7f) << 7) | ((b3 & 0x7f) << 14) | (b4 << 21),
        );
    }
    RefHdr::Malformed
}

/// Reference encoder of the variable byte integer: (bytes, count).
pub fn ref_varint(len: usize) -> ([u8; 4], usize) {
    let b0 = (len & 0x7f) as u8;
    let b1 = ((len >> 7) & 0x7f) as u8;
    let b2 = ((len >> 14) & 0x7f) as u8;
    let b3 = ((len >> 21) & 0x7f) as u8;
    if len < 128 {
        ([b0, 0, 0, 0], 1)
    } else if len < 16_384 {
        ([b0 | 0x80, b1, 0, 0], 2)
    } else if len < 2_097_152 {
        ([b0 | 0x80, b1 | 0x80, b2, 0], 3)
    } else {
        ([b0 | 0x80, b1 | 0x80, b2 | 0x80, b3], 4)
    }
}

/// Stubs that give `tracing` events empty bodies (logging is never the subject; the real
/// dispatch path goes through thread-locals whose destructor registration Kani cannot compile).
/// Part of the claim: "no tracing subscriber is installed / events are disabled".
pub mod tstub {
    pub fn never(_c: &tracing::callsite::DefaultCallsite) -> tracing::subscriber::Interest {
        tracing::subscriber::Interest::never()
    }
    pub fn not_enabled(_m: &tracing::Metadata<'static>, _i: tracing::subscriber::Interest) -> bool {
        false
    }
    pub fn no_dispatch<'a>(_m: &'static tracing::Metadata<'static>, _f: &'a tracing::field::ValueSet<'_>)
    where
        'a: 'a,
    {
    }
}

/// `#[kani::proof]` harness with the three tracing stubs attached.
#[macro_export]
macro_rules! proof_tracing_off {
    ($unwind:literal, $name:ident, $body:block) => {
        #[kani::proof]
        #[kani::unwind($unwind)]
        #[kani::stub(tracing::callsite::DefaultCallsite::interest, crate::util::tstub::never)]
        #[kani::stub(tracing::__macro_support::__is_enabled, crate::util::tstub::not_enabled)]
        #[kani::stub(tracing::Event::dispatch, crate::util::tstub::no_dispatch)]
        pub fn $name() $body
    };
}

/// parking_lot's contended paths park the thread through a thread-local with a destructor
/// (not compilable by Kani).  Harnesses are single-threaded, so the slow paths are
/// unreachable at run time; the stubs turn "reached" into a failed assertion.
pub mod plstub {
    pub fn lock_slow(_m: &parking_lot::RawMutex, _t: Option<std::time::Instant>) -> bool {
        panic!("parking_lot lock contended in a single-threaded harness");
    }
    pub fn unlock_slow(_m: &parking_lot::RawMutex, _force_fair: bool) {
        panic!("parking_lot unlock_slow in a single-threaded harness");
    }
}

/// harness with tracing events off and parking_lot slow paths cut
#[macro_export]
macro_rules! proof_router_leaf {
    ($unwind:literal, $name:ident, $body:block) => {
        #[kani::proof]
        #[kani::unwind($unwind)]
        #[kani::stub(tracing::callsite::DefaultCallsite::interest, crate::util::tstub::never)]
        #[kani::stub(tracing::__macro_support::__is_enabled, crate::util::tstub::not_enabled)]
        #[kani::stub(tracing::Event::dispatch, crate::util::tstub::no_dispatch)]
        #[kani::stub(parking_lot::RawMutex::lock_slow, crate::util::plstub::lock_slow)]
        #[kani::stub(parking_lot::RawMutex::unlock_slow, crate::util::plstub::unlock_slow)]
        pub fn $name() $body
    };
}

/// Capacity is a performance hint, never semantics: `Vec::with_capacity(n)` /
/// `VecDeque::with_capacity(n)` are replaced by small-capacity equivalents so that CBMC does
/// not have to model 4 KB / 16 KB heap arrays (the real constructors ask for 1024 entries per
/// log segment and 100 events per client).  Growth then goes through the real `reserve` /
/// `grow` code.  Not usable where the code asserts on `capacity()` (rumqttd Outgoing::new).
pub mod capstub {
    use std::collections::VecDeque;
    pub fn vec_with_capacity<T>(capacity: usize) -> Vec<T> {
        let mut v = Vec::new();
        v.reserve_exact(if capacity < 4 { capacity } else { 4 });
        v
    }
    /// `Vec::reserve(additional)` with a SYMBOLIC `additional` drags a symbolic-size realloc +
    /// memcpy into the formula even when the capacity always suffices (CBMC: out of memory in
    /// array post-processing).  Harness-provided output vectors are pre-sized, so growth through
    /// `reserve` is turned into an assertion that it is never needed.
    pub fn vec_reserve_no_growth<T, A: std::alloc::Allocator>(v: &mut Vec<T, A>, additional: usize) {
        if v.capacity() == 0 {
            // first allocation of an empty Vec (concrete sizes in practice): real code path
            v.reserve_exact(additional);
            return;
        }
        assert!(v.capacity() - v.len() >= additional, "harness: pre-sized Vec would have to grow in reserve()");
    }
    /// `VecDeque::grow` (private, called by push_back when full): queues in the harnesses are far
    /// from full (100 / 200 slots), but when the LENGTH is symbolic CBMC has to carry the whole
    /// symbolic-size reallocation.  Reaching it becomes a failed assertion instead.
    pub fn vecdeque_never_grows<T, A: std::alloc::Allocator>(_v: &mut VecDeque<T, A>) {
        panic!("harness: VecDeque would have to grow");
    }
    pub fn vecdeque_with_capacity<T>(capacity: usize) -> VecDeque<T> {
        let mut v = VecDeque::new();
        v.reserve_exact(if capacity < 4 { capacity } else { 4 });
        v
    }
}

/// harness for the commit log: tracing off + small capacities
#[macro_export]
macro_rules! proof_c13 {
    ($unwind:literal, $name:ident, $body:block) => {
        #[kani::proof]
        #[kani::unwind($unwind)]
        #[kani::stub(tracing::callsite::DefaultCallsite::interest, crate::util::tstub::never)]
        #[kani::stub(tracing::__macro_support::__is_enabled, crate::util::tstub::not_enabled)]
        #[kani::stub(tracing::Event::dispatch, crate::util::tstub::no_dispatch)]
        #[kani::stub(std::vec::Vec::with_capacity, crate::util::capstub::vec_with_capacity)]
        #[kani::stub(std::vec::Vec::reserve, crate::util::capstub::vec_reserve_no_growth)]
        #[kani::stub(std::collections::VecDeque::grow, crate::util::capstub::vecdeque_never_grows)]
        pub fn $name() $body
    };
}

//! Reference models (oracles) and small helpers shared by the harnesses.

/// Result of the reference fixed-header / framing decoder, written directly from
/// MQTT 3.1.1 section 2.2 / MQTT 5 section 2.1 (one type byte, then a 1..=4 byte
/// little-endian base-128 variable byte integer).
#[derive(Debug, Clone, Copy, PartialEq, Eq)]
pub enum RefHdr {
    /// header itself (type byte + varint) is not complete yet
    HeaderIncomplete,
    /// 4th length byte still has its continuation bit set
    Malformed,
    /// header complete: (byte1, header_len, remaining_len)
    Hdr(u8, usize, usize),
}

/// Reference header decoder over a plain slice. Loop-free on purpose.
pub fn ref_header(b: &[u8]) -> RefHdr {
    let n = b.len();
    if n < 2 {
        return RefHdr::HeaderIncomplete;
    }
    let b1 = b[1] as usize;
    if b1 & 0x80 == 0 {
        return RefHdr::Hdr(b[0], 2, b1);
    }
    if n < 3 {
        return RefHdr::HeaderIncomplete;
    }
    let b2 = b[2] as usize;
    if b2 & 0x80 == 0 {
        return RefHdr::Hdr(b[0], 3, (b1 & 0x7f) | (b2 << 7));
    }
    if n < 4 {
        return RefHdr::HeaderIncomplete;
    }
    let b3 = b[3] as usize;
    if b3 & 0x80 == 0 {
        return RefHdr::Hdr(b[0], 4, (b1 & 0x7f) | ((b2 & 0x7f) << 7) | (b3 << 14));
    }
    if n < 5 {
        return RefHdr::HeaderIncomplete;
    }
    let b4 = b[4] as usize;
    if b4 & 0x80 == 0 {
        return RefHdr::Hdr(
            b[0],
            5,
            (b1 & 0x7f) | ((b2 & 0x7f) << 7) | ((b3 & 0x7f) << 14) | (b4 << 21),
        );
    }
    RefHdr::Malformed
}

/// Reference encoder of the variable byte integer: (bytes, count).
pub fn ref_varint(len: usize) -> ([u8; 4], usize) {
    let b0 = (len & 0x7f) as u8;
    let b1 = ((len >> 7) & 0x7f) as u8;
    let b2 = ((len >> 14) & 0x7f) as u8;
    let b3 = ((len >> 21) & 0x7f) as u8;
    if len < 128 {
        ([b0, 0, 0, 0], 1)
    } else if len < 16_384 {
        ([b0 | 0x80, b1, 0, 0], 2)
    } else if len < 2_097_152 {
        ([b0 | 0x80, b1 | 0x80, b2, 0], 3)
    } else {
        ([b0 | 0x80, b1 | 0x80, b2 | 0x80, b3], 4)
    }
}

//! cost probes
use super::*;

fn two_segments() -> (CommitLog<Item>, Ghost) {
    // shape: segment 5 = [2 entries], segment 6 (active) = [1 entry]; absolute offsets 40..43
    let a = Item { id: kani::any(), sz: 1024 };
    let b = Item { id: kani::any(), sz: kani::any() };
    let c = Item { id: kani::any(), sz: kani::any() };
    let parts = vec![(40u64, vec![b, a]), (42u64, vec![c])];
    let log = CommitLog::verif_from_parts(5, SEG, 2, parts);
    let mut g = Ghost::new(2);
    g.base = 40;
    g.n = 3;
    g.ids[0] = b.id;
    g.ids[1] = a.id;
    g.ids[2] = c.id;
    g.seg_of[0] = 5;
    g.seg_of[1] = 5;
    g.seg_of[2] = 6;
    g.head = 5;
    g.tail = 6;
    g.seg_start[0] = 40;
    g.seg_start[1] = 42;
    (log, g)
}

proof_tracing_off!(8, probe_v1_symoff, {
    let (log, g) = two_segments();
    let a: u64 = kani::any();
    let len: u64 = kani::any();
    kani::assume(len <= 4);
    let mut out: Vec<(Item, (u64, u64))> = Vec::with_capacity(8);
    let r = log.readv((5, a), len, &mut out);
    assert!(r.is_ok());
    assert!(out.len() as u64 <= len);
    core::mem::forget(log);
});

proof_tracing_off!(8, probe_v2_symseg, {
    let (log, g) = two_segments();
    let s: u64 = kani::any();
    let len: u64 = kani::any();
    kani::assume(len <= 4);
    let mut out: Vec<(Item, (u64, u64))> = Vec::with_capacity(8);
    let r = log.readv((s, 41), len, &mut out);
    assert!(r.is_ok());
    assert!(out.len() as u64 <= len);
    core::mem::forget(log);
});

proof_tracing_off!(8, probe_v3_both, {
    let (log, g) = two_segments();
    let s: u64 = kani::any();
    let a: u64 = kani::any();
    let len: u64 = kani::any();
    kani::assume(len <= 4);
    let mut out: Vec<(Item, (u64, u64))> = Vec::with_capacity(8);
    let r = log.readv((s, a), len, &mut out);
    assert!(r.is_ok());
    assert!(out.len() as u64 <= len);
    core::mem::forget(log);
});

proof_tracing_off!(8, probe_v4_concrete_cursor, {
    let (log, g) = two_segments();
    let len: u64 = kani::any();
    kani::assume(len <= 4);
    let mut out: Vec<(Item, (u64, u64))> = Vec::with_capacity(8);
    let r = log.readv((5, 41), len, &mut out);
    match r {
        Ok(pos) => check_read(&g, (5, 41), len, &out, pos),
        Err(_) => assert!(false),
    }
    core::mem::forget(log);
});

//! C13 - commit log reads return exactly the retained suffix; retention is bounded.
//!
//! Real code: rumqttd::segments::{CommitLog::{new, append, apply_retention, readv,
//! next_offset}, segment::Segment::{push, readv, next_offset, with_offset}} with
//! T = Item { id, sz } (`Storage::size` returns `sz`).
//!
//! Measured (DESIGN 0 / 6): CBMC decides these functions in seconds as long as the segment
//! LAYOUT (how many segments, how many entries each) is concrete, and explodes (5 M variables
//! for a read on an empty log) as soon as a container index depends on a symbolic value.  So the
//! layout is case-split - one harness instance per shape - and everything else is symbolic:
//! entry sizes (hence whether the next append rotates / evicts), the cursor offset (all 2^64
//! values: before, inside, at the end of, beyond the named segment), the read length.
//! Pre-states are built with the REAL `Segment::with_offset` + `push` through the
//! `verif_from_parts` hook under the representation invariant that `CommitLog::new`
//! establishes and `append` preserves (checked by the append-step harnesses themselves):
//!   INV: 1 <= #segments <= max_mem_segments; tail - head + 1 == #segments; absolute offsets
//!        contiguous; every non-active segment is full (total size >= max_segment_size, and was
//!        not full before its last entry); the active segment is non-empty unless the log is new.
use rumqttd::verif_api::{CommitLog, Position, Storage};

pub mod history;
pub mod step;

#[derive(Clone, Copy, Debug, PartialEq, Eq)]
pub struct Item {
    pub id: u8,
    pub sz: u16,
}

impl Storage for Item {
    fn size(&self) -> usize {
        self.sz as usize
    }
}

pub const SEG: usize = 1024; // smallest max_segment_size CommitLog::new accepts

/// A concrete layout: `counts[i]` entries in the i-th retained segment (oldest first),
/// segment indices HEAD.., absolute offsets BASE.. ; entry with absolute index a has
/// id (a - BASE + 1).
#[derive(Clone, Copy)]
pub struct Shape {
    pub nseg: usize,
    pub counts: [u64; 3],
    pub head: u64,
    pub base: u64,
    /// id of the entry at absolute index `base` (ids are handed out sequentially)
    pub id0: u8,
}

impl Shape {
    pub fn total(&self) -> u64 {
        self.counts[0] + self.counts[1] + self.counts[2]
    }
    pub fn tail(&self) -> u64 {
        self.head + self.nseg as u64 - 1
    }
    pub fn end(&self) -> u64 {
        self.base + self.total()
    }
    /// absolute start of the i-th retained segment
    pub fn start(&self, i: usize) -> u64 {
        let mut s = self.base;
        let mut k = 0;
        while k < i {
            s += self.counts[k];
            k += 1;
        }
        s
    }
    /// index (0-based among retained segments) of the segment holding absolute index a
    pub fn seg_index_of(&self, a: u64) -> usize {
        if self.nseg > 1 && a >= self.start(1) {
            if self.nseg > 2 && a >= self.start(2) {
                2
            } else {
                1
            }
        } else {
            0
        }
    }
    pub fn id_at(&self, a: u64) -> u8 {
        (a - self.base) as u8 + self.id0
    }
}

/// Build the log for `shape` with symbolic sizes under INV.  Returns the log and the
/// (symbolic) total size of the active segment.
pub fn build(shape: &Shape, max_mem: usize) -> (CommitLog<Item>, u64) {
    build_with(shape, max_mem, None)
}

/// `active_sizes`: CONCRETE sizes for the entries of the active segment (append-step harnesses:
/// whether the next append rotates must be a concrete branch - a symbolic one merges two heap
/// layouts and the following `Vec::push` drags a symbolic-size reallocation into the formula).
pub fn build_with(shape: &Shape, max_mem: usize, active_sizes: Option<[u16; 2]>) -> (CommitLog<Item>, u64) {
    let mut parts: Vec<(u64, Vec<Item>)> = Vec::with_capacity(3);
    let mut active_total = 0u64;
    let mut i = 0;
    let mut next_id = 1u8;
    while i < shape.nseg {
        let mut entries: Vec<Item> = Vec::with_capacity(3);
        let mut total = 0u64;
        let mut before_last = 0u64;
        let mut k = 0;
        while k < shape.counts[i] {
            let active_seg = i + 1 == shape.nseg;
            let sz: u16 = match (active_seg, active_sizes) {
                (true, Some(a)) => a[k as usize],
                _ => kani::any(),
            };
            before_last = total;
            total += sz as u64;
            entries.push(Item { id: next_id, sz });
            next_id += 1;
            k += 1;
        }
        let active = i + 1 == shape.nseg;
        if !active {
            // a retired segment was full, and became full only with its last entry
            kani::assume(total >= SEG as u64 && before_last < SEG as u64);
        } else {
            // the active segment had room when its last entry went in
            kani::assume(before_last < SEG as u64);
            active_total = total;
        }
        parts.push((shape.start(i), entries));
        i += 1;
    }
    (CommitLog::verif_from_parts(shape.head, SEG, max_mem, parts), active_total)
}

/// the real log has exactly this layout
pub fn check_layout(log: &CommitLog<Item>, shape: &Shape, max_mem: usize) {
    let (head, tail) = log._head_and_tail();
    assert!(log.memory_segments_count() <= max_mem, "retention: more segments than configured");
    assert!(head == shape.head && tail == shape.tail(), "retention: head/tail differ from the documented policy");
    assert!(log.memory_segments_count() == shape.nseg, "retention: segment count");
    assert!(log.next_offset() == (shape.tail(), shape.end()), "next_offset: not the log tail");
    let mut i = 0;
    while i < shape.nseg {
        match log.verif_segment(i) {
            Some((abs, n, _size)) => {
                assert!(abs == shape.start(i), "retention: segment start (only whole oldest segments may be dropped)");
                assert!(n == shape.counts[i], "retention: segment entry count");
            }
            None => assert!(false, "retention: segment missing"),
        }
        i += 1;
    }
}

/// Read post-condition for a cursor (s, a) with `shape.head <= s <= tail` naming a live
/// segment (or s < head: stale), a anywhere at or before the end of that segment (a cursor
/// the log can have issued at some earlier moment: offsets only grow, segments only retire).
pub fn check_read(shape: &Shape, cur: (u64, u64), len: u64, out: &Vec<(Item, (u64, u64))>, pos: Position) {
    let oldest = shape.base;
    let p = if cur.1 < oldest { oldest } else { cur.1 };
    let avail = shape.end() - p;
    let count = if len < avail { len } else { avail };
    assert!(out.len() as u64 == count, "read: wrong number of entries returned");
    // concrete indices only (see module doc): at most 4 entries are ever requested
    if count > 0 {
        check_entry(shape, out[0], p);
    }
    if count > 1 {
        check_entry(shape, out[1], p + 1);
    }
    if count > 2 {
        check_entry(shape, out[2], p + 2);
    }
    if count > 3 {
        check_entry(shape, out[3], p + 3);
    }
    let (done, end) = match pos {
        Position::Next { start: _, end } => (false, end),
        Position::Done { start: _, end } => (true, end),
    };
    assert!(done == (p + len >= shape.end()), "read: caught-up flag wrong");
    assert!(end.1 == p + count, "read: continuation does not resume where the read stopped");
    assert!(end.0 >= shape.head && end.0 <= shape.tail(), "read: continuation names a dead segment");
    let ei = (end.0 - shape.head) as usize;
    let seg_start = if ei == 0 { shape.start(0) } else if ei == 1 { shape.start(1) } else { shape.start(2) };
    let seg_count = if ei == 0 { shape.counts[0] } else if ei == 1 { shape.counts[1] } else { shape.counts[2] };
    assert!(seg_start <= end.1 && end.1 <= seg_start + seg_count, "read: continuation offset outside its segment");
}

fn check_entry(shape: &Shape, e: (Item, (u64, u64)), abs: u64) {
    let (item, off) = e;
    assert!(item.id == shape.id_at(abs), "read: wrong entry / order (gap or repeat)");
    assert!(off.1 == abs, "read: entry tagged with the wrong absolute offset");
    assert!(off.0 == shape.head + shape.seg_index_of(abs) as u64, "read: entry tagged with the wrong segment");
}

//! C13 real histories from `CommitLog::new`: CONCRETE size vectors (layout concrete, see
//! mod.rs), then a read from every live segment with symbolic offset / length.  Ties the
//! INV pre-states of step.rs to states the real constructor + append actually produce.
use super::*;

fn history(max_mem: usize, sizes: &[u16], expect: Shape, s_rel: i64) {
    let mut log: CommitLog<Item> = CommitLog::new(SEG, max_mem).unwrap();
    let mut k = 0;
    while k < sizes.len() {
        log.append(Item { id: (k + 1) as u8, sz: sizes[k] });
        k += 1;
    }
    check_layout(&log, &expect, max_mem);
    let s = (expect.head as i64 + s_rel) as u64;
    let a: u64 = kani::any();
    if s_rel >= 0 {
        let i = s_rel as usize;
        kani::assume(a >= expect.start(i) && a <= expect.start(i) + expect.counts[i]);
    } else {
        kani::assume(a <= expect.base);
    }
    let len: u64 = kani::any();
    kani::assume(len <= 4);
    let mut out: Vec<(Item, (u64, u64))> = Vec::new();
    out.reserve_exact(8);
    let rr = log.readv((s, a), len, &mut out);
    match &rr {
        Ok(pos) => check_read(&expect, (s, a), len, &out, *pos),
        Err(_) => assert!(false, "readv: io error from an in-memory log"),
    }
    kani::cover!(out.len() > 0, "read something");
    core::mem::forget(rr);
    core::mem::forget(out);
    core::mem::forget(log);
}

// 5 appends, 1 segment allowed: [1024] [512 512] [7] -> only the last survives... (policy:
// rotate when the active segment is full at the NEXT append)
proof_c13!(8, h_m1_rotate_twice, {
    // sizes: 1024 | 512 512 | 7      -> segments {0:[1]} {1:[2,3]} {2:[4]}, max 1 => only seg 2 kept
    history(1, &[1024, 512, 512, 7], Shape { nseg: 1, counts: [1, 0, 0], head: 2, base: 3, id0: 4 }, 0)
});
proof_c13!(8, h_m1_stale, {
    history(1, &[1024, 512, 512, 7], Shape { nseg: 1, counts: [1, 0, 0], head: 2, base: 3, id0: 4 }, -1)
});
proof_c13!(8, h_m2_big_entries, {
    // 2048 | 1 1023 | 0 -> {0:[1]} {1:[2,3]} {2:[4]}, max 2 => segs 1,2 kept
    history(2, &[2048, 1, 1023, 0], Shape { nseg: 2, counts: [2, 1, 0], head: 1, base: 1, id0: 2 }, 0)
});
proof_c13!(8, h_m3_no_eviction, {
    // 1024 | 1024 | 5 5 -> three segments, max 3 => all kept
    history(3, &[1024, 1024, 5, 5], Shape { nseg: 3, counts: [1, 1, 2], head: 0, base: 0, id0: 1 }, 1)
});

//! C13 one-step harnesses over INV pre-states (see mod.rs).
use super::*;

/// `append(Item{sz})` from an arbitrary INV state of this shape: all sizes symbolic, so the
/// solver decides both the "room left" and the "rotate (and evict iff full)" outcome.
pub fn append_step(shape: Shape, max_mem: usize, active_sizes: [u16; 2]) {
    let (mut log, active_total) = build_with(&shape, max_mem, Some(active_sizes));
    check_layout(&log, &shape, max_mem);
    let sz: u16 = kani::any();
    let it = Item { id: (shape.total() + 1) as u8, sz };
    let got = log.append(it);
    // documented policy
    let rotate = active_total >= SEG as u64;
    let evict = rotate && shape.nseg >= max_mem;
    let mut after = shape;
    if !rotate {
        after.counts[shape.nseg - 1] += 1;
    } else if !evict {
        after.counts[shape.nseg] = 1;
        after.nseg += 1;
    } else {
        // whole oldest segment dropped, nothing else
        after.base = shape.start(1.min(shape.nseg));
        after.id0 = shape.id0 + shape.counts[0] as u8;
        if shape.nseg == 1 {
            after.base = shape.end();
            after.counts[0] = 1;
        } else if shape.nseg == 2 {
            after.counts[0] = shape.counts[1];
            after.counts[1] = 1;
        } else {
            after.counts[0] = shape.counts[1];
            after.counts[1] = shape.counts[2];
            after.counts[2] = 1;
        }
        after.head += 1;
    }
    assert!(got == (after.tail(), after.end()), "append: returned offset");
    check_layout(&log, &after, max_mem);
    kani::cover!(true, "reached the end");
    core::mem::forget(log);
}

/// `readv((s, a), len)` on an INV state of this shape; s concrete per instance (a live
/// segment, or one below head = stale cursor), a fully symbolic up to the end of that
/// segment (stale: anything), len symbolic in 0..=4.
pub fn read_step(shape: Shape, max_mem: usize, s_rel: i64) {
    let (log, _active_total) = build(&shape, max_mem);
    let s = (shape.head as i64 + s_rel) as u64;
    let a: u64 = kani::any();
    if s_rel >= 0 {
        let i = s_rel as usize;
        // a cursor the log issued for segment s: inside it or at its end; it may also predate
        // the oldest retained entry of that segment's start only if stale (s_rel < 0)
        kani::assume(a >= shape.start(i) && a <= shape.start(i) + shape.counts[i]);
    } else {
        kani::assume(a <= shape.base);
    }
    let len: u64 = kani::any();
    kani::assume(len <= 4);
    let mut out: Vec<(Item, (u64, u64))> = Vec::new();
    out.reserve_exact(8);
    let rr = log.readv((s, a), len, &mut out);
    match &rr {
        Ok(pos) => check_read(&shape, (s, a), len, &out, *pos),
        Err(_) => assert!(false, "readv: io error from an in-memory log"),
    }
    kani::cover!(shape.total() == 0 || (out.len() as u64 == len && len > 0), "request fully served");
    // (a stale cursor on a log with >= 4 retained entries can never exhaust it with len <= 4)
    kani::cover!((s_rel < 0 && shape.total() >= 4) || (out.len() as u64) < len, "log exhausted before the request");
    core::mem::forget(rr);
    core::mem::forget(out);
    core::mem::forget(log);
}

/// fabricated cursor (any u64 pair), any len <= 4: no panic / overflow, never more than asked
pub fn fabricated_step(shape: Shape, max_mem: usize, s_rel: i64) {
    let (log, _active_total) = build(&shape, max_mem);
    let s = (shape.head as i64 + s_rel) as u64;
    let a: u64 = kani::any();
    let len: u64 = kani::any();
    kani::assume(len <= 4);
    let mut out: Vec<(Item, (u64, u64))> = Vec::new();
    out.reserve_exact(8);
    let r = log.readv((s, a), len, &mut out);
    assert!(r.is_ok(), "readv(fabricated): io error");
    assert!(out.len() as u64 <= len, "readv(fabricated): more than requested");
    kani::cover!(s_rel < 0 || s_rel as usize >= shape.nseg || out.len() > 0, "fabricated cursor that reads something");
    kani::cover!(out.len() == 0, "fabricated cursor that reads nothing");
    core::mem::forget(r);
    core::mem::forget(out);
    core::mem::forget(log);
}

const fn shape(nseg: usize, c0: u64, c1: u64, c2: u64) -> Shape {
    Shape { nseg, counts: [c0, c1, c2], head: 3, base: 10, id0: 1 }
}
const fn fresh() -> Shape {
    Shape { nseg: 1, counts: [0, 0, 0], head: 0, base: 0, id0: 1 }
}

macro_rules! steps {
    ($($name:ident: $f:ident($($arg:expr),*));* $(;)?) => {
        $( proof_c13!(8, $name, { $f($($arg),*) }); )*
    };
}

steps! {
    // append: (shape, max_mem, concrete sizes of the active segment's entries) - every boundary of
    // "is the active segment full" (total 1023 / 1024 / 1025, one big entry, two halves)
    append_fresh_m1: append_step(fresh(), 1, [0, 0]);
    append_s1_room_m1: append_step(shape(1, 1, 0, 0), 1, [1023, 0]);
    append_s1_full_m1: append_step(shape(1, 1, 0, 0), 1, [1024, 0]);
    append_s1_big_m1: append_step(shape(1, 1, 0, 0), 1, [2048, 0]);
    append_s2_full_m1: append_step(shape(1, 2, 0, 0), 1, [512, 512]);
    append_s2_room_m1: append_step(shape(1, 2, 0, 0), 1, [512, 511]);
    append_s1_full_m2: append_step(shape(1, 1, 0, 0), 2, [1025, 0]);
    append_s11_full_m2: append_step(shape(2, 1, 1, 0), 2, [1024, 0]);
    append_s11_room_m2: append_step(shape(2, 1, 1, 0), 2, [0, 0]);
    append_s22_full_m2: append_step(shape(2, 2, 2, 0), 2, [1, 1023]);
    append_s12_full_m3: append_step(shape(2, 1, 2, 0), 3, [1000, 24]);
    append_s111_full_m3: append_step(shape(3, 1, 1, 1), 3, [65535, 0]);
    append_s212_room_m3: append_step(shape(3, 2, 1, 2), 3, [1000, 23]);
    // read: (shape, max_mem, segment relative to head; -1 = stale)
    read_fresh: read_step(fresh(), 1, 0);
    read_s2_0: read_step(shape(1, 2, 0, 0), 1, 0);
    read_s2_stale: read_step(shape(1, 2, 0, 0), 1, -1);
    read_s21_0: read_step(shape(2, 2, 1, 0), 2, 0);
    read_s21_1: read_step(shape(2, 2, 1, 0), 2, 1);
    read_s12_0: read_step(shape(2, 1, 2, 0), 2, 0);
    read_s12_stale: read_step(shape(2, 1, 2, 0), 2, -1);
    read_s212_0: read_step(shape(3, 2, 1, 2), 3, 0);
    read_s212_1: read_step(shape(3, 2, 1, 2), 3, 1);
    read_s212_2: read_step(shape(3, 2, 1, 2), 3, 2);
    read_s212_stale: read_step(shape(3, 2, 1, 2), 3, -1);
    // fabricated cursors
    fab_s21_0: fabricated_step(shape(2, 2, 1, 0), 2, 0);
    fab_s21_1: fabricated_step(shape(2, 2, 1, 0), 2, 1);
    fab_s21_beyond: fabricated_step(shape(2, 2, 1, 0), 2, 2);
    fab_s21_stale: fabricated_step(shape(2, 2, 1, 0), 2, -2);
}


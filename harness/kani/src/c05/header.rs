//! C05 header/framing layer: `check()` of all four codec copies against the
//! reference header decoder, on a FULLY symbolic buffer of up to N bytes with a
//! symbolic visible prefix length `n` and symbolic `max`.
//!
//! Clauses decided here (for every byte string up to N bytes, every max):
//!  * totality: check() returns, no panic / overflow / slice error;
//!  * Ok  <=> header complete, well-formed, remaining_len <= max, n >= frame length,
//!            and the returned header equals the reference (type byte, header length,
//!            remaining length) -> never consumes beyond the declared frame;
//!  * "need more bytes" only while the header or the declared frame is incomplete,
//!    and the number asked for never exceeds what is actually missing;
//!  * size-limit error <=> declared remaining length > max (never accepts it);
//!  * malformed error <=> 4th length byte has the continuation bit.
use crate::util::*;

pub const N: usize = 8;

macro_rules! header_check {
    ($name:ident, $check:path, $parts:path, $maxty:ty, $mk_max:expr, $errmod:path) => {
        #[kani::proof]
        #[kani::unwind(7)]
        pub fn $name() {
            use $errmod as E;
            let buf: [u8; N] = kani::any();
            let n: usize = kani::any();
            kani::assume(n <= N);
            let max_raw: $maxty = kani::any();
            let (max_arg, max_eff): (_, Option<usize>) = $mk_max(max_raw);
            let r = $check(buf[..n].iter(), max_arg);
            let reference = ref_header(&buf[..n]);
            match reference {
                RefHdr::HeaderIncomplete => match r {
                    Err(E::InsufficientBytes(k)) => {
                        assert!(k >= 1, "hdr: asks for 0 more bytes");
                        kani::cover!(n >= 2, "incomplete varint");
                    }
                    _ => assert!(false, "hdr: incomplete header must ask for more bytes"),
                },
                RefHdr::Malformed => match r {
                    Err(E::MalformedRemainingLength) => {
                        kani::cover!(true, "malformed");
                    }
                    _ => assert!(false, "hdr: 5-byte varint must be malformed"),
                },
                RefHdr::Hdr(b0, hl, rl) => {
                    let too_big = match max_eff {
                        Some(m) => rl > m,
                        None => false,
                    };
                    if too_big {
                        match r {
                            Err(E::PayloadSizeLimitExceeded { .. }) => {
                                kani::cover!(true, "too big");
                            }
                            _ => assert!(false, "hdr: over-limit frame not rejected"),
                        }
                    } else if n < hl + rl {
                        match r {
                            Err(E::InsufficientBytes(k)) => {
                                assert!(k == hl + rl - n, "hdr: wrong number of missing bytes");
                                kani::cover!(true, "frame incomplete");
                            }
                            _ => assert!(false, "hdr: incomplete frame must ask for more bytes"),
                        }
                    } else {
                        match r {
                            Ok(fh) => {
                                let (byte1, fhl, frl) = $parts(&fh);
                                assert!(byte1 == b0, "hdr: type byte");
                                assert!(fhl == hl, "hdr: header length");
                                assert!(frl == rl, "hdr: remaining length");
                                assert!(fh.frame_length() == hl + rl, "hdr: frame length");
                                assert!(fh.frame_length() <= n, "hdr: frame beyond buffer");
                                kani::cover!(hl == 2 && rl == 6, "full frame");
                                kani::cover!(hl == 3, "2-byte varint accepted");
                            }
                            Err(_) => assert!(false, "hdr: complete frame rejected"),
                        }
                    }
                }
            }
        }
    };
}

fn max_usize(m: usize) -> (usize, Option<usize>) {
    (m, Some(m))
}
fn max_opt_u32(m: Option<u32>) -> (Option<u32>, Option<usize>) {
    (m, m.map(|x| x as usize))
}

// PayloadSizeLimitExceeded is a tuple variant in three copies and a struct variant in
// rumqttc v5; `{ .. }` patterns match both.
header_check!(
    rumqttc_v4,
    rumqttc::mqttbytes::check,
    rumqttc::mqttbytes::verif_api::fixed_header_parts,
    usize,
    max_usize,
    rumqttc::mqttbytes::Error
);
header_check!(
    rumqttc_v5,
    rumqttc::v5::mqttbytes::v5::check,
    rumqttc::v5::mqttbytes::v5::verif_api::fixed_header_parts,
    Option<u32>,
    max_opt_u32,
    rumqttc::v5::mqttbytes::Error
);
header_check!(
    rumqttd_v4,
    rumqttd::protocol::v4::check,
    rumqttd::protocol::v4::verif_api::fixed_header_parts,
    usize,
    max_usize,
    rumqttd::protocol::Error
);
header_check!(
    rumqttd_v5,
    rumqttd::protocol::v5::check,
    rumqttd::protocol::v5::verif_api::fixed_header_parts,
    usize,
    max_usize,
    rumqttd::protocol::Error
);

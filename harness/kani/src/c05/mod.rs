//! C05 - decoders are total, bounded and chunking-independent on arbitrary bytes.
pub mod header;
pub mod body;

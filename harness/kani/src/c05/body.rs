//! C05 body layer, CLIENT decoders (rumqttc v4 and v5 `Packet::read`): complete frames whose
//! type byte and declared remaining length are concrete per instance (DESIGN rule 4) and whose
//! body bytes are fully symbolic.  Fixed-size packet types only (the string-bearing parsers and
//! both broker decoders do not finish under CBMC, DESIGN section 0).
//!
//! Clauses: never panics; whatever the outcome, exactly the declared frame is consumed; a complete
//! frame is never answered with "need more bytes" (that answer makes the framing loop wait for
//! input while the frame is already gone).
use bytes::{BufMut, BytesMut};
use rumqttc::mqttbytes::v4 as c4;
use rumqttc::v5::mqttbytes::v5 as c5;

const MAX: usize = 1 << 20;

fn frame(byte0: u8, r: usize) -> BytesMut {
    // element-wise stores keep byte0 / length constant for symex (no memcpy)
    let mut buf = BytesMut::with_capacity(16);
    buf.put_u8(byte0);
    buf.put_u8(r as u8);
    let mut i = 0;
    while i < r {
        buf.put_u8(kani::any());
        i += 1;
    }
    buf
}

fn body_v4(byte0: u8, r: usize) {
    let mut buf = frame(byte0, r);
    let res = c4::Packet::read(&mut buf, MAX);
    assert!(buf.is_empty(), "body: decoder did not consume exactly the declared frame");
    if let Err(e) = &res {
        assert!(
            !matches!(e, rumqttc::mqttbytes::Error::InsufficientBytes(_)),
            "body: complete frame answered with 'need more bytes'"
        );
    }
    core::mem::forget(res);
}

fn body_v5(byte0: u8, r: usize) {
    let mut buf = frame(byte0, r);
    let res = c5::Packet::read(&mut buf, None);
    assert!(buf.is_empty(), "body: decoder did not consume exactly the declared frame");
    if let Err(e) = &res {
        assert!(
            !matches!(e, rumqttc::v5::mqttbytes::Error::InsufficientBytes(_)),
            "body: complete frame answered with 'need more bytes'"
        );
    }
    core::mem::forget(res);
}

macro_rules! bodies {
    ($($name:ident: $f:ident($b0:expr), $rmax:expr);* $(;)?) => { $(
        #[kani::proof]
        #[kani::unwind(8)]
        pub fn $name() {
            let mut r = 0usize;
            while r <= $rmax {
                $f($b0, r);
                r += 1;
            }
            kani::cover!(true, "all lengths done");
        }
    )* };
}

bodies! {
    v4_type0: body_v4(0x00), 3;
    v4_connack: body_v4(0x20), 4;
    v4_puback: body_v4(0x40), 4;
    v4_pubrec: body_v4(0x50), 4;
    v4_pubrel: body_v4(0x62), 4;
    v4_pubcomp: body_v4(0x70), 4;
    v4_suback: body_v4(0x90), 4;
    v4_unsuback: body_v4(0xB0), 4;
    v4_pingreq: body_v4(0xC0), 3;
    v4_pingresp: body_v4(0xD0), 3;
    v4_disconnect: body_v4(0xE0), 3;
    v4_type15: body_v4(0xF0), 3;
    v5_type0: body_v5(0x00), 3;
    v5_puback: body_v5(0x40), 4;
    v5_pubrec: body_v5(0x50), 4;
    v5_pubrel: body_v5(0x62), 4;
    v5_pubcomp: body_v5(0x70), 4;
    v5_unsuback: body_v5(0xB0), 3;
    v5_pingreq: body_v5(0xC0), 3;
    v5_pingresp: body_v5(0xD0), 3;
    v5_disconnect: body_v5(0xE0), 3;
}

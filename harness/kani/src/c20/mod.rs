//! C20 - every notification the routing core emits towards a connection can be encoded by that
//! connection's protocol, and a forwarded publish keeps topic/payload/qos/pkid across versions
//! (properties dropped towards 3.1.1, preserved towards 5).
//!
//! Real code: `impl From<Notification> for Option<Packet>`, `impl From<Ack> for Packet`
//! (rumqttd::router), `V4::write`, `V5::write` (rumqttd::protocol), decoded back with the CLIENT
//! decoders `rumqttc::mqttbytes::v4::Packet::read` / `rumqttc::v5::mqttbytes::v5::Packet::read`.
//! The notifications are exactly those `routing.rs` / `logs.rs` construct: Forward (properties =
//! whatever the publisher sent), DeviceAck(ConnAck | SubAck | PubAck | PubRec | PubRel | PubComp |
//! UnsubAck | PingResp) without properties, Disconnect(_, None), Unschedule.
use bytes::{Bytes, BytesMut};
use rumqttc::mqttbytes::v4 as c4;
use rumqttc::v5::mqttbytes::v5 as c5;
use rumqttd::protocol as d;
use rumqttd::protocol::v4::V4;
use rumqttd::protocol::v5::V5;
use rumqttd::protocol::Protocol;
use rumqttd::verif_api::Ack;
use rumqttd::{Forward, Notification};

const MAX: usize = 1 << 20;

fn ascii1() -> [u8; 1] {
    let b: [u8; 1] = kani::any();
    kani::assume(b[0] < 0x80);
    b
}

fn any_qos() -> (d::QoS, u8) {
    match kani::any::<u8>() % 3 {
        0 => (d::QoS::AtMostOnce, 0),
        1 => (d::QoS::AtLeastOnce, 1),
        _ => (d::QoS::ExactlyOnce, 2),
    }
}

/// properties a v5 publisher may have attached (strings/binary of length 1, symbolic content;
/// every Option symbolic present/absent; 0 or 1 user property)
fn any_props() -> d::PublishProperties {
    let s = ascii1();
    d::PublishProperties {
        payload_format_indicator: if kani::any() { Some(kani::any()) } else { None },
        message_expiry_interval: if kani::any() { Some(kani::any()) } else { None },
        topic_alias: if kani::any() { Some(kani::any()) } else { None },
        response_topic: if kani::any() { Some(crate::c04::rt_v4::string_of(&s)) } else { None },
        correlation_data: if kani::any() { Some(Bytes::copy_from_slice(&s)) } else { None },
        user_properties: Vec::new(),
        subscription_identifiers: Vec::new(),
        content_type: if kani::any() { Some(crate::c04::rt_v4::string_of(&s)) } else { None },
    }
}

/// `qn`, `retain` CONCRETE (they end up in byte 0 of the frame, which the decoders dispatch on:
/// a symbolic type/flag byte makes symex walk all 14 packet parsers - DESIGN rule 4)
fn any_forward(with_props: bool, qn: u8, retain: bool) -> (Forward, [u8; 1], [u8; 1], u8, u16, bool) {
    let topic = ascii1();
    let payload: [u8; 1] = kani::any();
    let q = match qn {
        0 => d::QoS::AtMostOnce,
        1 => d::QoS::AtLeastOnce,
        _ => d::QoS::ExactlyOnce,
    };
    let pkid: u16 = kani::any();
    // QoS>0 needs an id; a QoS0 forward may still carry the publisher's id (the router re-grades
    // the QoS to the subscription's without clearing it), so for QoS0 the id is arbitrary
    kani::assume(qn == 0 || pkid != 0);
    let mut publish = d::Publish::new(Bytes::copy_from_slice(&topic), Bytes::copy_from_slice(&payload), retain);
    publish.verif_set_header(false, q, pkid);
    let f = Forward {
        cursor: None,
        size: 0,
        publish,
        properties: if with_props { Some(any_props()) } else { None },
    };
    (f, topic, payload, qn, pkid, retain)
}

fn to_packet(n: Notification) -> d::Packet {
    let p: Option<d::Packet> = n.into();
    match p {
        Some(p) => p,
        None => {
            assert!(false, "C20: a forward/ack/disconnect notification has no packet form");
            unreachable!()
        }
    }
}

/// publish forwarded to a 3.1.1 subscriber (whatever version the publisher spoke): encodable
/// without panic, and byte-for-byte the frame of the same publish without properties
/// (= properties dropped, topic / payload / qos / pkid / retain kept; that this frame decodes in a
/// 3.1.1 client is C04's business).
fn forward_to_v4(with_props: bool, qn: u8, retain: bool) {
    let (f, _topic, _payload, _qn, _pkid, _retain) = any_forward(with_props, qn, retain);
    let plain = Forward { cursor: None, size: 0, publish: f.publish.clone(), properties: None };
    let packet = to_packet(Notification::Forward(f));
    let mut buf = BytesMut::with_capacity(64);
    let w = V4.write(packet, &mut buf); // must not panic even when the publisher attached properties
    assert!(w.is_ok(), "C20: 3.1.1 encoder refused a forwarded publish");
    assert!(matches!(w, Ok(n) if n == buf.len()), "C20: 3.1.1 encoder reported a wrong size");
    let mut buf2 = BytesMut::with_capacity(64);
    let w2 = V4.write(to_packet(Notification::Forward(plain)), &mut buf2);
    assert!(w2.is_ok(), "C20: 3.1.1 encoder refused a plain publish");
    assert!(buf.len() == buf2.len() && buf.len() <= 12, "C20: properties changed the 3.1.1 frame length");
    let mut i = 0;
    while i < 12 {
        if i < buf.len() {
            assert!(buf[i] == buf2[i], "C20: properties leaked into / changed the 3.1.1 frame");
        }
        i += 1;
    }
    kani::cover!(true, "encoded");
    core::mem::forget(w);
    core::mem::forget(w2);
}

/// publish forwarded to an MQTT 5 subscriber: properties preserved
fn forward_to_v5(with_props: bool, qn: u8, retain: bool) {
    let (f, topic, payload, qn, pkid, retain) = any_forward(with_props, qn, retain);
    let props = f.properties.clone();
    let packet = to_packet(Notification::Forward(f));
    let mut buf = BytesMut::with_capacity(64);
    let w = V5.write(packet, &mut buf);
    assert!(w.is_ok(), "C20: MQTT 5 encoder refused a forwarded publish");
    assert!(matches!(w, Ok(n) if n == buf.len()), "C20: MQTT 5 encoder reported a wrong size");
    let r = c5::Packet::read(&mut buf, None);
    match &r {
        Ok(c5::Packet::Publish(p)) => {
            assert!(p.topic[..] == topic[..] && p.payload[..] == payload[..], "C20: topic/payload changed towards an MQTT 5 subscriber");
            assert!(p.qos as u8 == qn && p.pkid == pkid && p.retain == retain, "C20: qos/pkid/retain changed towards an MQTT 5 subscriber");
            match (&props, &p.properties) {
                (None, None) => {}
                (Some(a), Some(b)) => {
                    assert!(a.payload_format_indicator == b.payload_format_indicator, "C20: payload format indicator lost");
                    assert!(a.message_expiry_interval == b.message_expiry_interval, "C20: message expiry lost");
                    assert!(a.topic_alias == b.topic_alias, "C20: topic alias lost");
                    assert!(a.response_topic == b.response_topic, "C20: response topic lost");
                    assert!(a.correlation_data == b.correlation_data, "C20: correlation data lost");
                    assert!(a.content_type == b.content_type, "C20: content type lost");
                }
                (Some(a), None) => {
                    // an all-empty property set may legitimately decode as "no properties"
                    assert!(
                        a.payload_format_indicator.is_none() && a.message_expiry_interval.is_none() && a.topic_alias.is_none()
                            && a.response_topic.is_none() && a.correlation_data.is_none() && a.content_type.is_none(),
                        "C20: MQTT 5 properties dropped towards an MQTT 5 subscriber"
                    );
                }
                (None, Some(_)) => assert!(false, "C20: properties invented"),
            }
        }
        _ => assert!(false, "C20: MQTT 5 client cannot decode the forwarded publish"),
    }
    assert!(buf.is_empty(), "C20: stray bytes after the forwarded publish");
    core::mem::forget(r);
    core::mem::forget(w);
    core::mem::forget(props);
}

fn any_ack(kind: u8) -> (Ack, u8, u16) {
    let pkid: u16 = kani::any();
    kani::assume(pkid != 0);
    match kind {
        0 => (Ack::PubAck(d::PubAck { pkid, reason: d::PubAckReason::Success }), 0, pkid),
        1 => (Ack::PubRec(d::PubRec { pkid, reason: d::PubRecReason::Success }), 1, pkid),
        2 => (Ack::PubRel(d::PubRel { pkid, reason: d::PubRelReason::Success }), 2, pkid),
        3 => (Ack::PubComp(d::PubComp { pkid, reason: d::PubCompReason::Success }), 3, pkid),
        4 => (Ack::UnsubAck(d::UnsubAck { pkid, reasons: Vec::new() }), 4, pkid),
        5 => (Ack::PingResp(d::PingResp), 5, 0),
        _ => (
            Ack::SubAck(d::SubAck { pkid, return_codes: vec![d::SubscribeReasonCode::Success(any_qos().0)] }),
            6,
            pkid,
        ),
    }
}

fn ack_to_v4(kind: u8) {
    let (ack, kind, pkid) = any_ack(kind);
    let packet = to_packet(Notification::DeviceAck(ack));
    let mut buf = BytesMut::with_capacity(64);
    let w = V4.write(packet, &mut buf);
    assert!(matches!(w, Ok(n) if n == buf.len()), "C20: 3.1.1 encoder refused / mis-sized a router acknowledgement");
    let r = c4::Packet::read(&mut buf, MAX);
    let ok = match (&r, kind) {
        (Ok(c4::Packet::PubAck(a)), 0) => a.pkid == pkid,
        (Ok(c4::Packet::PubRec(a)), 1) => a.pkid == pkid,
        (Ok(c4::Packet::PubRel(a)), 2) => a.pkid == pkid,
        (Ok(c4::Packet::PubComp(a)), 3) => a.pkid == pkid,
        (Ok(c4::Packet::UnsubAck(a)), 4) => a.pkid == pkid,
        (Ok(c4::Packet::PingResp), 5) => true,
        (Ok(c4::Packet::SubAck(a)), 6) => a.pkid == pkid && a.return_codes.len() == 1,
        _ => false,
    };
    assert!(ok, "C20: 3.1.1 client decodes the router acknowledgement differently");
    assert!(buf.is_empty(), "C20: stray bytes after the acknowledgement");
    kani::cover!(true, "decoded");
    core::mem::forget(r);
    core::mem::forget(w);
}

fn ack_to_v5(kind: u8) {
    let (ack, kind, pkid) = any_ack(kind);
    let packet = to_packet(Notification::DeviceAck(ack));
    let mut buf = BytesMut::with_capacity(64);
    let w = V5.write(packet, &mut buf);
    assert!(matches!(w, Ok(n) if n == buf.len()), "C20: MQTT 5 encoder refused / mis-sized a router acknowledgement");
    let r = c5::Packet::read(&mut buf, None);
    let ok = match (&r, kind) {
        (Ok(c5::Packet::PubAck(a)), 0) => a.pkid == pkid,
        (Ok(c5::Packet::PubRec(a)), 1) => a.pkid == pkid,
        (Ok(c5::Packet::PubRel(a)), 2) => a.pkid == pkid,
        (Ok(c5::Packet::PubComp(a)), 3) => a.pkid == pkid,
        (Ok(c5::Packet::UnsubAck(a)), 4) => a.pkid == pkid,
        (Ok(c5::Packet::PingResp(_)), 5) => true,
        (Ok(c5::Packet::SubAck(a)), 6) => a.pkid == pkid && a.return_codes.len() == 1,
        _ => false,
    };
    assert!(ok, "C20: MQTT 5 client decodes the router acknowledgement differently");
    assert!(buf.is_empty(), "C20: stray bytes after the acknowledgement");
    kani::cover!(true, "decoded");
    core::mem::forget(r);
    core::mem::forget(w);
}

fn connack_both() {
    let sp: bool = kani::any();
    let code = if kani::any() { d::ConnectReturnCode::Success } else { d::ConnectReturnCode::NotAuthorized };
    let ack = Ack::ConnAck(kani::any(), d::ConnAck { session_present: sp, code }, None);
    let packet = to_packet(Notification::DeviceAck(ack));
    let mut b4 = BytesMut::with_capacity(64);
    let w4 = V4.write(packet.clone(), &mut b4);
    assert!(matches!(w4, Ok(n) if n == b4.len()), "C20: 3.1.1 encoder refused / mis-sized CONNACK");
    let r4 = c4::Packet::read(&mut b4, MAX);
    assert!(matches!(&r4, Ok(c4::Packet::ConnAck(a)) if a.session_present == sp), "C20: 3.1.1 client cannot decode CONNACK");
    let mut b5 = BytesMut::with_capacity(64);
    let w5 = V5.write(packet, &mut b5);
    assert!(matches!(w5, Ok(n) if n == b5.len()), "C20: MQTT 5 encoder refused / mis-sized CONNACK");
    let r5 = c5::Packet::read(&mut b5, None);
    assert!(matches!(&r5, Ok(c5::Packet::ConnAck(a)) if a.session_present == sp), "C20: MQTT 5 client cannot decode CONNACK");
    assert!(b4.is_empty() && b5.is_empty(), "C20: stray bytes after CONNACK");
    core::mem::forget((r4, r5, w4, w5));
}

/// router-initiated DISCONNECT (session taken over etc.) towards an MQTT 5 link
fn disconnect_to_v5(which: u8) {
    let reason_code = match which {
        0 => d::DisconnectReasonCode::NormalDisconnection,
        1 => d::DisconnectReasonCode::SessionTakenOver,
        2 => d::DisconnectReasonCode::ServerShuttingDown,
        _ => d::DisconnectReasonCode::UnspecifiedError,
    };
    let packet = to_packet(Notification::Disconnect(d::Disconnect { reason_code }, None));
    let mut buf = BytesMut::with_capacity(64);
    let w = V5.write(packet, &mut buf);
    assert!(matches!(w, Ok(n) if n == buf.len()), "C20: MQTT 5 encoder refused / mis-sized a router DISCONNECT");
    let r = c5::Packet::read(&mut buf, None);
    assert!(matches!(&r, Ok(c5::Packet::Disconnect(_))), "C20: MQTT 5 client cannot decode the router DISCONNECT");
    assert!(buf.is_empty(), "C20: stray bytes after DISCONNECT");
    kani::cover!(true, "decoded");
    core::mem::forget(r);
    core::mem::forget(w);
}

fn unschedule_is_not_a_packet() {
    let p: Option<d::Packet> = Notification::Unschedule.into();
    assert!(p.is_none(), "C20: Unschedule must not be written to the wire");
}

macro_rules! c20 {
    ($($name:ident: $body:expr, $unw:literal);* $(;)?) => {
        $( proof_tracing_off!($unw, $name, { $body }); )*
    };
}

fn all_acks_v4() {
    let mut k = 0u8;
    while k < 7 {
        ack_to_v4(k);
        k += 1;
    }
}
fn all_acks_v5() {
    let mut k = 0u8;
    while k < 7 {
        ack_to_v5(k);
        k += 1;
    }
}

c20! {
    forward_props_q0_to_v4: forward_to_v4(true, 0, false), 14;
    forward_props_q1_to_v4: forward_to_v4(true, 1, true), 14;
    forward_props_q2_to_v4: forward_to_v4(true, 2, false), 14;
    forward_plain_q0_to_v5: { forward_to_v5(false, 0, false); forward_to_v5(false, 0, true) }, 6;
    forward_plain_q1_to_v5: { forward_to_v5(false, 1, false); forward_to_v5(false, 1, true) }, 6;
    forward_plain_q2_to_v5: { forward_to_v5(false, 2, false); forward_to_v5(false, 2, true) }, 6;
    forward_props_q0_to_v5: forward_to_v5(true, 0, true), 8;
    forward_props_q1_to_v5: forward_to_v5(true, 1, false), 8;
    forward_props_q2_to_v5: forward_to_v5(true, 2, true), 8;
    acks_v4: all_acks_v4(), 9;
    acks_v5: all_acks_v5(), 9;
    connack: connack_both(), 6;
    disconnect_normal_v5: disconnect_to_v5(0), 6;
    disconnect_takenover_v5: disconnect_to_v5(1), 6;
    disconnect_shutdown_v5: disconnect_to_v5(2), 6;
    disconnect_unspecified_v5: disconnect_to_v5(3), 6;
    unschedule: unschedule_is_not_a_packet(), 4;
}

//! MQTT 5 client state machine (rumqttc::v5::MqttState): port of v4.rs, plus reason codes and
//! the CONNACK receive-maximum negotiation.  Topic aliases (a HashMap) are outside: inbound
//! publishes are drawn without properties.
//!
//! Pre-states are ARBITRARY states satisfying the representation invariant INV below, built
//! through the `verif_fields` hook on top of the real `MqttState::new(max, manual_acks)`;
//! `max` (inflight limit) is concrete per instance (1, 2, 3), everything else is symbolic:
//! which ids are held, their QoS, their identity tag, pending releases, the allocator
//! position, the last acknowledged id, a parked collision, the ping flag.
//!
//!   INV  slot 0 empty, release bit 0 clear; slot i holds a QoS>0 publish with pkid == i;
//!        inflight == #held publishes + #pending releases <= max; last_pkid < max;
//!        last_puback <= max; a parked collision has 1 <= pkid <= max and its id is held by
//!        an unacknowledged publish or a pending release; collision_ping_count <= 1.
//!
//! Every step harness asserts INV again after the step (so the family is inductive: the
//! claims hold after histories of ANY length, for these `max`), plus the per-property
//! clauses, labelled "C02:", "C07:", "C10:", "C11:", "C18:".
//!
//! A publish's identity is carried in (dup, retain) - two ghost bits that the state machine
//! must hand back unchanged - so no payload allocation is needed.
use bytes::Bytes;
use rumqttc::v5::mqttbytes::v5::*;
use rumqttc::v5::mqttbytes::QoS;
use rumqttc::v5::{Event, MqttState, Request, StateError};
use rumqttc::Outgoing;

pub const MAXM: usize = 4; // table slots tracked by the ghost (max <= 3)
pub const INC: usize = 4; // inbound QoS2 ids tracked: 0..INC

#[derive(Clone, Copy, PartialEq, Eq, Debug)]
pub struct P {
    pub pkid: u16,
    pub qos2: bool,
    pub tag: u8,
}

#[derive(Clone, Copy, PartialEq, Eq, Debug)]
pub struct Snap {
    pub max: u16,
    pub slot: [Option<P>; MAXM],
    pub rel: [bool; MAXM],
    pub inc: [bool; INC],
    pub inflight: u16,
    pub last_pkid: u16,
    pub last_puback: u16,
    pub coll: Option<P>,
    pub await_pingresp: bool,
    pub cpc: usize,
}

pub fn mk_publish(p: P) -> Publish {
    Publish {
        dup: p.tag & 1 != 0,
        retain: p.tag & 2 != 0,
        qos: if p.qos2 { QoS::ExactlyOnce } else { QoS::AtLeastOnce },
        topic: Bytes::new(),
        pkid: p.pkid,
        payload: Bytes::new(),
        properties: None,
    }
}

pub fn view(p: &Publish) -> P {
    P {
        pkid: p.pkid,
        qos2: p.qos == QoS::ExactlyOnce,
        tag: (p.dup as u8) | ((p.retain as u8) << 1),
    }
}

pub fn any_p(pkid: u16) -> P {
    let tag: u8 = kani::any();
    kani::assume(tag < 4);
    P { pkid, qos2: kani::any(), tag }
}

/// arbitrary INV state
pub fn arb_state(max: u16, manual_acks: bool) -> (MqttState, Snap) {
    arb_state_shaped(max, manual_acks, None)
}

/// `presence`: CONCRETE occupancy pattern (bit i-1: slot i holds a publish, bit max+i-1: release
/// i pending) for harnesses where the number of held entries must be concrete (clean(): every
/// `pending.push` under a symbolic condition makes the Vec length symbolic and CBMC then carries
/// the symbolic-size `grow` path).  Identity, QoS and everything else stay symbolic.
pub fn arb_state_shaped(max: u16, manual_acks: bool, presence: Option<u16>) -> (MqttState, Snap) {
    let mut st = MqttState::new(max, manual_acks);
    let mut s = Snap {
        max,
        slot: [None; MAXM],
        rel: [false; MAXM],
        inc: [false; INC],
        inflight: 0,
        last_pkid: kani::any(),
        last_puback: kani::any(),
        coll: None,
        await_pingresp: kani::any(),
        cpc: kani::any(),
    };
    kani::assume(s.last_pkid < max && s.last_puback == 0 && s.cpc <= 1);
    {
        let (last_pkid, inflight, _max_inflight, _upper, opub, orel, ipub) = st.verif_fields();
        let mut i = 1usize;
        while i <= max as usize {
            // Write a fully formed publish first and clear the slot afterwards: the `None` store
            // only touches the discriminant, so String/Bytes lengths stay CONCRETE (0) on both
            // branches and a later `clone()` does not allocate a symbolic-size buffer.
            let p = any_p(i as u16);
            opub[i] = Some(mk_publish(p));
            let has_pub = match presence {
                Some(bits) => bits & (1 << (i - 1)) != 0,
                None => kani::any(),
            };
            let has_rel = match presence {
                Some(bits) => bits & (1 << (max as usize + i - 1)) != 0,
                None => kani::any(),
            };
            if has_pub {
                s.slot[i] = Some(p);
                s.inflight += 1;
            } else {
                opub[i] = None;
            }
            if has_rel {
                orel.insert(i);
                s.rel[i] = true;
                s.inflight += 1;
            }
            i += 1;
        }
        let mut k = 0usize;
        while k < INC {
            if kani::any() {
                ipub.insert(k);
                s.inc[k] = true;
            }
            k += 1;
        }
        kani::assume(s.inflight <= max);
        *last_pkid = s.last_pkid;
        *inflight = s.inflight;
    }
    {
        let k: u16 = kani::any();
        kani::assume(k >= 1 && k <= max);
        let c = any_p(k);
        st.collision = Some(mk_publish(c));
        if kani::any() {
            kani::assume(s.slot[k as usize].is_some() || s.rel[k as usize]);
            s.coll = Some(c);
        } else {
            st.collision = None;
        }
    }
    st.await_pingresp = s.await_pingresp;
    st.collision_ping_count = s.cpc;
    (st, s)
}

/// read the real state back into a ghost view (concrete indices only)
pub fn snapshot(st: &mut MqttState, max: u16) -> Snap {
    snapshot_with(st, max, true)
}

/// `fixed_window == false`: the step may legitimately renegotiate the window (CONNACK
/// receive-maximum); the caller asserts what it may become.
pub fn snapshot_with(st: &mut MqttState, max: u16, fixed_window: bool) -> Snap {
    let coll = st.collision.as_ref().map(view);
    let await_pingresp = st.await_pingresp;
    let cpc = st.collision_ping_count;
    let (last_pkid, inflight, max_inflight, _upper, opub, orel, ipub) = st.verif_fields();
    assert!(!fixed_window || *max_inflight == max, "INV: max_inflight changed");
    assert!(opub.len() == max as usize + 1, "INV: table size changed");
    let mut s = Snap {
        max,
        slot: [None; MAXM],
        rel: [false; MAXM],
        inc: [false; INC],
        inflight: *inflight,
        last_pkid: *last_pkid,
        last_puback: 0,
        coll,
        await_pingresp,
        cpc,
    };
    let mut i = 0usize;
    while i <= max as usize {
        s.slot[i] = opub[i].as_ref().map(view);
        s.rel[i] = orel.contains(i);
        i += 1;
    }
    let mut k = 0usize;
    while k < INC {
        s.inc[k] = ipub.contains(k);
        k += 1;
    }
    s
}

pub fn count(s: &Snap) -> u16 {
    let mut c = 0;
    let mut i = 0;
    while i < MAXM {
        if s.slot[i].is_some() {
            c += 1;
        }
        if s.rel[i] {
            c += 1;
        }
        i += 1;
    }
    c
}

/// INV on the post-state
pub fn check_inv(s: &Snap) {
    assert!(s.slot[0].is_none() && !s.rel[0], "C07: id 0 recorded as in flight");
    let mut i = 1usize;
    while i <= s.max as usize {
        if let Some(p) = s.slot[i] {
            assert!(p.pkid as usize == i, "C07: publish stored under a different id than it carries");
        }
        i += 1;
    }
    assert!(s.inflight == count(s), "C07: inflight counter out of step with the held publishes and releases");
    assert!(s.inflight <= s.max, "C07: more unacknowledged publishes than the inflight limit");
    assert!(s.last_pkid < s.max, "C07: allocator position outside 0..max");
    assert!(s.last_puback <= s.max, "C11: last acknowledged id outside the table");
    if let Some(c) = s.coll {
        assert!(c.pkid >= 1 && c.pkid <= s.max, "C07: parked collision with an id outside 1..=max");
        assert!(
            s.slot[c.pkid as usize].is_some() || s.rel[c.pkid as usize],
            "C07: collision pending although its id is not held - it can never be resolved"
        );
    }
}

/// C02: everything held before (slots, releases, parked collision) is still held after,
/// except `gone_pub` / `gone_rel` (finally acknowledged by this step).
pub fn check_held(pre: &Snap, post: &Snap, gone_pub: Option<u16>, gone_rel: Option<u16>) {
    let mut i = 1usize;
    while i <= pre.max as usize {
        if let Some(p) = pre.slot[i] {
            if gone_pub != Some(i as u16) {
                assert!(post.slot[i] == Some(p), "C02: an unacknowledged publish was dropped or altered");
            }
        }
        if pre.rel[i] && gone_rel != Some(i as u16) {
            assert!(post.rel[i], "C02: a pending release was dropped");
        }
        i += 1;
    }
    if let Some(c) = pre.coll {
        let still_parked = post.coll == Some(c);
        let registered = post.slot[c.pkid as usize] == Some(c);
        assert!(still_parked || registered, "C02: the publish parked on an id collision is no longer held");
    }
}

pub fn drain_events(st: &mut MqttState) -> ([Option<Event>; 3], usize) {
    let n = st.events.len();
    let a = st.events.pop_front();
    let b = st.events.pop_front();
    let c = st.events.pop_front();
    ([a, b, c], n)
}

fn is_out(e: &Option<Event>, want: Outgoing) -> bool {
    matches!(e, Some(Event::Outgoing(o)) if *o == want)
}

// ---------------------------------------------------------------------------------------------
// user -> state machine

/// user publish under the event loop's admission rule (inflight < max, no collision pending)
pub fn step_out_publish(max: u16) {
    let (mut st, pre) = arb_state(max, false);
    kani::assume(crate::generated::admission::v5_takes_request(pre.inflight, max, pre.coll.is_some(), true)); // EventLoop::select guard, generated from source
    let qos_sel: u8 = kani::any();
    kani::assume(qos_sel <= 2);
    let mut p = any_p(0);
    p.qos2 = qos_sel == 2;
    let mut publish = mk_publish(p);
    if qos_sel == 0 {
        publish.qos = QoS::AtMostOnce;
    }
    let r = st.handle_outgoing_packet(Request::Publish(publish));
    let (ev, nev) = drain_events(&mut st);
    let post = snapshot(&mut st, max);
    let mut parked = false;
    'step: {
    check_inv(&post);
    check_held(&pre, &post, None, None);
    if qos_sel == 0 {
        match &r {
            Ok(Some(Packet::Publish(out))) => {
                assert!(out.pkid == 0 && out.qos == QoS::AtMostOnce, "C07: QoS0 publish must not carry an id");
                assert!(view(out).tag == p.tag, "C02: publish content altered");
            }
            _ => assert!(false, "C10: QoS0 publish not handed to the network"),
        }
        assert!(post == pre, "C07: QoS0 publish must not touch the window");
        assert!(nev == 1 && is_out(&ev[0], Outgoing::Publish(0)), "C10: exactly one Outgoing::Publish(0) announcement");
        break 'step;
    }
    let id = pre.last_pkid + 1;
    assert!(post.last_pkid == if id == max { 0 } else { id }, "C07: cyclic id allocation");
    let want = P { pkid: id, qos2: p.qos2, tag: p.tag };
    if pre.slot[id as usize].is_some() {
        // id still held by an unacknowledged publish: park, do not send, do not overwrite
        assert!(matches!(r, Ok(None)), "C07: colliding publish must not be put on the wire");
        assert!(post.coll == Some(want), "C02: colliding publish must be parked");
        assert!(post.slot[id as usize] == pre.slot[id as usize], "C07: unacknowledged publish overwritten");
        assert!(post.inflight == pre.inflight, "C07: parked publish counted as in flight");
        assert!(nev == 1 && is_out(&ev[0], Outgoing::AwaitAck(id)), "C10: AwaitAck announcement");
        parked = true;
    } else {
        match &r {
            Ok(Some(Packet::Publish(out))) => {
                assert!(view(out) == want, "C07: publish on the wire carries a different id/content than recorded");
                assert!(out.pkid >= 1 && out.pkid <= max, "C07: packet id outside 1..=max");
            }
            _ => assert!(false, "C02: accepted publish neither sent nor parked"),
        }
        assert!(post.slot[id as usize] == Some(want), "C02: accepted publish not recorded before sending");
        assert!(post.inflight == pre.inflight + 1, "C07: inflight not incremented");
        assert!(post.coll.is_none(), "C07: spurious collision");
        assert!(nev == 1 && is_out(&ev[0], Outgoing::Publish(id)), "C10: exactly one Outgoing::Publish(id) announcement");
        kani::cover!(id == max, "id wraps at the limit");
    }
    }
    kani::cover!(max < 2 || parked, "collision parked");
    core::mem::forget(r);
    core::mem::forget(ev);
    core::mem::forget(st);
}

pub fn step_out_subscribe(max: u16) {
    let (mut st, pre) = arb_state(max, false);
    kani::assume(crate::generated::admission::v5_takes_request(pre.inflight, max, pre.coll.is_some(), true));
    let unsub: bool = kani::any();
    let r = if unsub {
        st.handle_outgoing_packet(Request::Unsubscribe(Unsubscribe::new("a", None)))
    } else {
        st.handle_outgoing_packet(Request::Subscribe(Subscribe::new(Filter::new("a", QoS::AtMostOnce), None)))
    };
    let (ev, nev) = drain_events(&mut st);
    let post = snapshot(&mut st, max);
    'step: {
    check_inv(&post);
    check_held(&pre, &post, None, None);
    let id = pre.last_pkid + 1;
    match &r {
        Ok(Some(Packet::Subscribe(s))) => {
            assert!(!unsub && s.pkid == id && id >= 1 && id <= max, "C07: subscribe id outside 1..=max");
            assert!(nev == 1 && is_out(&ev[0], Outgoing::Subscribe(id)), "C10: Outgoing::Subscribe announcement");
        }
        Ok(Some(Packet::Unsubscribe(u))) => {
            assert!(unsub && u.pkid == id && id >= 1 && id <= max, "C07: unsubscribe id outside 1..=max");
            assert!(nev == 1 && is_out(&ev[0], Outgoing::Unsubscribe(id)), "C10: Outgoing::Unsubscribe announcement");
        }
        _ => assert!(false, "C10: subscribe/unsubscribe not handed to the network"),
    }
    let mut expect = pre;
    expect.last_pkid = if id == max { 0 } else { id };
    assert!(post == expect, "C07: subscribe/unsubscribe must only advance the id allocator");
    core::mem::forget(r);
    }
    core::mem::forget(ev);
    core::mem::forget(st);
}

/// keep-alive ping flag protocol
pub fn step_out_ping(max: u16) {
    let (mut st, pre) = arb_state(max, false);
    let r = st.handle_outgoing_packet(Request::PingReq);
    let (ev, nev) = drain_events(&mut st);
    let post = snapshot(&mut st, max);
    'step: {
    check_inv(&post);
    check_held(&pre, &post, None, None);
    let coll_timeout = pre.coll.is_some() && pre.cpc + 1 >= 2;
    if coll_timeout {
        assert!(matches!(r, Err(StateError::CollisionTimeout)), "C18: second ping during an unresolved collision must fail");
    } else if pre.await_pingresp {
        assert!(
            matches!(r, Err(StateError::AwaitPingResp)),
            "C18: a ping while the previous one is unanswered must report the connection as failed"
        );
        assert!(nev == 0, "C10: announced a PINGREQ that was not sent");
    } else {
        assert!(matches!(r, Ok(Some(Packet::PingReq(_)))), "C18: ping refused although the broker answered the previous one");
        assert!(post.await_pingresp, "C18: outstanding-ping flag not set");
        assert!(nev == 1 && is_out(&ev[0], Outgoing::PingReq), "C10: PINGREQ announcement");
    }
    kani::cover!(coll_timeout, "collision timeout");
    kani::cover!(!coll_timeout && pre.await_pingresp, "silent broker detected");
    kani::cover!(matches!(r, Ok(Some(Packet::PingReq(_)))), "ping sent");
    }
    core::mem::forget(r);
    core::mem::forget(ev);
    core::mem::forget(st);
}

// ---------------------------------------------------------------------------------------------
// broker -> state machine

pub fn any_id(max: u16) -> u16 {
    // 0, every table id, max+1, and a far away id - all classes of broker behaviour
    let id: u16 = kani::any();
    kani::assume(id <= max + 1 || id == 0xFFFF);
    id
}

fn first_is_incoming(ev: &[Option<Event>; 3], want: &Packet) -> bool {
    matches!(&ev[0], Some(Event::Incoming(p)) if p == want)
}

pub fn step_in_puback(max: u16) {
    step_in_puback_with(max, false)
}

pub fn step_in_puback_failure(max: u16) {
    step_in_puback_with(max, true)
}

/// `failure`: the broker acknowledges with a failure reason code (MQTT 5).  The publish is finally
/// acknowledged either way: the slot and the window must be freed and a collision parked on that
/// id must be resolved exactly as for a successful acknowledgement.
pub fn step_in_puback_with(max: u16, failure: bool) {
    let (mut st, pre) = arb_state(max, kani::any());
    let id = any_id(max);
    let mut ack = PubAck::new(id, None);
    if failure {
        ack.reason = PubAckReason::QuotaExceeded;
    }
    let pkt = Packet::PubAck(ack);
    let r = st.handle_incoming_packet(pkt.clone());
    let (ev, nev) = drain_events(&mut st);
    let post = snapshot(&mut st, max);
    'step: {
    assert!(nev >= 1 && first_is_incoming(&ev, &pkt), "C10: received packet not surfaced first, exactly once");
    let solicited = id >= 1 && id <= max && pre.slot[id as usize].is_some();
    if !solicited {
        assert!(matches!(r, Err(StateError::Unsolicited(x)) if x == id), "C10: unsolicited PUBACK must be reported as an error");
        let mut expect = pre;
        assert!(post == expect, "C10: unsolicited PUBACK corrupted the bookkeeping");
        assert!(nev == 1, "C10: announced a write for an unsolicited PUBACK");
        check_inv(&post);
        kani::cover!(id == 0xFFFF, "far away id");
        kani::cover!(id <= max, "id inside the table but not held");
        break 'step;
    }
    check_inv(&post);
    check_held(&pre, &post, Some(id), None);
        let resolves = matches!(pre.coll, Some(c) if c.pkid == id);
    if resolves {
        let c = pre.coll.unwrap();
        match &r {
            Ok(Some(Packet::Publish(out))) => assert!(view(out) == c, "C02: released publish differs from the parked one"),
            _ => assert!(false, "C07: acknowledgement freed the colliding id but the parked publish was not sent"),
        }
        assert!(post.slot[id as usize] == Some(c), "C02: released publish not recorded as unacknowledged");
        assert!(post.coll.is_none() && post.cpc == 0, "C07: collision not cleared");
        assert!(post.inflight == pre.inflight, "C07: inflight after collision release");
        assert!(nev == 2 && is_out(&ev[1], Outgoing::Publish(id)), "C10: released publish not announced exactly once");
        kani::cover!(true, "collision resolved by PUBACK");
    } else {
        assert!(matches!(r, Ok(None)), "C10: PUBACK must not produce a reply");
        assert!(post.slot[id as usize].is_none(), "C07: acknowledged publish still held");
        assert!(post.inflight == pre.inflight - 1, "C07: acknowledgement did not free the window");
        assert!(post.coll == pre.coll, "C07: unrelated collision touched");
        assert!(nev == 1, "C10: spurious announcement");
        // the admission guard opens again as soon as the window has room
        assert!(post.inflight < max, "C07: window still full after an acknowledgement");
    }
    }
    core::mem::forget(r);
    core::mem::forget(ev);
    core::mem::forget(st);
    core::mem::forget(pkt);
}

pub fn step_in_pubrec(max: u16) {
    let (mut st, pre) = arb_state(max, kani::any());
    let id = any_id(max);
    let pkt = Packet::PubRec(PubRec::new(id, None));
    let r = st.handle_incoming_packet(pkt.clone());
    let (ev, nev) = drain_events(&mut st);
    let post = snapshot(&mut st, max);
    'step: {
    assert!(nev >= 1 && first_is_incoming(&ev, &pkt), "C10: received packet not surfaced first, exactly once");
    let solicited = id >= 1 && id <= max && pre.slot[id as usize].is_some();
    if !solicited {
        assert!(matches!(r, Err(StateError::Unsolicited(x)) if x == id), "C10: unsolicited PUBREC must be reported as an error");
        assert!(post == pre, "C10: unsolicited PUBREC corrupted the bookkeeping");
        assert!(nev == 1, "C10: announced a write for an unsolicited PUBREC");
        break 'step;
    }
    // the id moves from "publish unacknowledged" to "release pending": still held (C02)
    assert!(matches!(r, Ok(Some(Packet::PubRel(ref x))) if x.pkid == id), "C10: PUBREC must be answered with PUBREL of the same id");
    assert!(nev == 2 && is_out(&ev[1], Outgoing::PubRel(id)), "C10: PUBREL not announced exactly once");
    assert!(post.slot[id as usize].is_none() && post.rel[id as usize], "C02: release not recorded as pending");
    check_held(&pre, &post, Some(id), None);
    if !pre.rel[id as usize] {
        check_inv(&post);
        assert!(post.inflight == pre.inflight, "C07: QoS2 flow stays in flight until PUBCOMP");
    }
    kani::cover!(max < 2 || pre.rel[id as usize], "id reused while its previous release was still pending");
    }
    core::mem::forget(r);
    core::mem::forget(ev);
    core::mem::forget(st);
    core::mem::forget(pkt);
}

/// PUBREC with a failure reason code (MQTT 5): the broker rejects the QoS2 publish, the exchange
/// is over.  The slot and the window must be freed (no release becomes pending), and a collision
/// parked on that id must be resolved.
pub fn step_in_pubrec_failure(max: u16) {
    let (mut st, pre) = arb_state(max, kani::any());
    let id: u16 = kani::any();
    kani::assume(id >= 1 && id <= max && pre.slot[id as usize].is_some() && !pre.rel[id as usize]);
    let mut rec = PubRec::new(id, None);
    rec.reason = PubRecReason::QuotaExceeded;
    let pkt = Packet::PubRec(rec);
    let r = st.handle_incoming_packet(pkt.clone());
    let (ev, nev) = drain_events(&mut st);
    let post = snapshot(&mut st, max);
    assert!(nev >= 1 && first_is_incoming(&ev, &pkt), "C10: received packet not surfaced first, exactly once");
    assert!(r.is_ok(), "C10: a rejected publish is not a protocol error");
    if matches!(pre.coll, Some(c) if c.pkid == id) {
        assert!(post.slot[id as usize] == pre.coll && post.coll.is_none(), "C07: collision on the freed id not resolved");
    } else {
        assert!(post.slot[id as usize].is_none(), "C07: rejected publish still held");
    }
    assert!(!post.rel[id as usize], "C07: a rejected QoS2 publish must not leave a release pending");
    check_held(&pre, &post, Some(id), None);
    check_inv(&post);
    kani::cover!(matches!(pre.coll, Some(c) if c.pkid == id), "a collision was parked on the rejected id");
    core::mem::forget(r);
    core::mem::forget(ev);
    core::mem::forget(st);
    core::mem::forget(pkt);
}

pub fn step_in_pubcomp(max: u16) {
    let (mut st, pre) = arb_state(max, kani::any());
    let id = any_id(max);
    let pkt = Packet::PubComp(PubComp::new(id, None));
    let r = st.handle_incoming_packet(pkt.clone());
    let (ev, nev) = drain_events(&mut st);
    let post = snapshot(&mut st, max);
    let mut seen_occupied_again = false;
    'step: {
    assert!(nev >= 1 && first_is_incoming(&ev, &pkt), "C10: received packet not surfaced first, exactly once");
    let solicited = id >= 1 && id <= max && pre.rel[id as usize];
    if !solicited {
        assert!(matches!(r, Err(StateError::Unsolicited(x)) if x == id), "C10: unsolicited PUBCOMP must be reported as an error");
        assert!(post == pre, "C10: unsolicited PUBCOMP corrupted the bookkeeping");
        assert!(nev == 1, "C10: announced a write for an unsolicited PUBCOMP");
        break 'step;
    }
    check_held(&pre, &post, None, Some(id));
    check_inv(&post);
    assert!(!post.rel[id as usize], "C07: completed release still pending");
    let resolves = matches!(pre.coll, Some(c) if c.pkid == id) && pre.slot[id as usize].is_none();
    if resolves {
        let c = pre.coll.unwrap();
        match &r {
            Ok(Some(Packet::Publish(out))) => assert!(view(out) == c, "C02: released publish differs from the parked one"),
            _ => assert!(false, "C07: PUBCOMP freed the colliding id but the parked publish was not sent"),
        }
        assert!(post.slot[id as usize] == Some(c), "C02: publish released by PUBCOMP is on the wire but not recorded as unacknowledged");
        assert!(post.coll.is_none() && post.cpc == 0, "C07: collision not cleared");
        assert!(nev == 2 && is_out(&ev[1], Outgoing::Publish(id)), "C10: released publish not announced exactly once");
        kani::cover!(true, "collision resolved by PUBCOMP");
    } else if matches!(pre.coll, Some(c) if c.pkid == id) {
        // the colliding id is still held by a NEWER publish: the parked one must stay parked
        assert!(post.coll == pre.coll || post.slot[id as usize] == pre.coll, "C02: parked publish lost on PUBCOMP");
        seen_occupied_again = true;
    } else {
        assert!(matches!(r, Ok(None)), "C10: PUBCOMP must not produce a reply");
        assert!(post.inflight == pre.inflight - 1, "C07: PUBCOMP did not free the window");
        assert!(nev == 1, "C10: spurious announcement");
    }
    }
    kani::cover!(max < 2 || seen_occupied_again, "PUBCOMP for an id whose slot is occupied again");
    core::mem::forget(r);
    core::mem::forget(ev);
    core::mem::forget(st);
    core::mem::forget(pkt);
}

/// inbound QoS flows: PUBLISH q0/q1/q2 and PUBREL
pub fn step_in_publish(max: u16) {
    let manual: bool = kani::any();
    let (mut st, pre) = arb_state(max, manual);
    let qos_sel: u8 = kani::any();
    kani::assume(qos_sel <= 2);
    let id: u16 = kani::any();
    kani::assume((id as usize) < INC);
    kani::assume((qos_sel == 0) == (id == 0));
    let mut publish = mk_publish(any_p(id));
    publish.qos = match qos_sel {
        0 => QoS::AtMostOnce,
        1 => QoS::AtLeastOnce,
        _ => QoS::ExactlyOnce,
    };
    let pkt = Packet::Publish(publish);
    let r = st.handle_incoming_packet(pkt.clone());
    let (ev, nev) = drain_events(&mut st);
    let post = snapshot(&mut st, max);
    'step: {
    assert!(nev >= 1 && first_is_incoming(&ev, &pkt), "C10: received publish not surfaced first, exactly once");
    check_inv(&post);
    let mut expect = pre;
    if qos_sel == 2 {
        expect.inc[id as usize] = true;
    }
    assert!(post == expect, "C10: inbound publish touched unrelated bookkeeping");
    if qos_sel == 0 || manual {
        assert!(matches!(r, Ok(None)), "C10: no automatic acknowledgement expected (QoS0 / manual acks)");
        assert!(nev == 1, "C10: announced an acknowledgement that was not sent");
    } else if qos_sel == 1 {
        assert!(matches!(r, Ok(Some(Packet::PubAck(ref a))) if a.pkid == id), "C10: QoS1 publish must be answered with PUBACK of its id");
        assert!(nev == 2 && is_out(&ev[1], Outgoing::PubAck(id)), "C10: PUBACK not announced exactly once");
    } else {
        assert!(matches!(r, Ok(Some(Packet::PubRec(ref a))) if a.pkid == id), "C10: QoS2 publish must be answered with PUBREC of its id");
        assert!(nev == 2 && is_out(&ev[1], Outgoing::PubRec(id)), "C10: PUBREC not announced exactly once");
    }
    kani::cover!(qos_sel == 2 && !manual, "qos2 auto ack");
    kani::cover!(qos_sel == 1 && manual, "qos1 manual ack");
    }
    core::mem::forget(r);
    core::mem::forget(ev);
    core::mem::forget(st);
    core::mem::forget(pkt);
}

pub fn step_in_pubrel(max: u16) {
    let (mut st, pre) = arb_state(max, kani::any());
    let id: u16 = kani::any();
    kani::assume((id as usize) < INC || id == 0xFFFF);
    let pkt = Packet::PubRel(PubRel::new(id, None));
    let r = st.handle_incoming_packet(pkt.clone());
    let (ev, nev) = drain_events(&mut st);
    let post = snapshot(&mut st, max);
    'step: {
    assert!(nev >= 1 && first_is_incoming(&ev, &pkt), "C10: received packet not surfaced first, exactly once");
    check_inv(&post);
    let known = (id as usize) < INC && pre.inc[id as usize];
    if known {
        assert!(matches!(r, Ok(Some(Packet::PubComp(ref a))) if a.pkid == id), "C10: release of a known id must be answered with PUBCOMP");
        assert!(nev == 2 && is_out(&ev[1], Outgoing::PubComp(id)), "C10: PUBCOMP not announced exactly once");
        let mut expect = pre;
        expect.inc[id as usize] = false;
        assert!(post == expect, "C10: PUBREL touched unrelated bookkeeping");
    } else {
        assert!(matches!(r, Err(StateError::Unsolicited(x)) if x == id), "C10: unsolicited PUBREL must be reported as an error");
        assert!(post == pre, "C10: unsolicited PUBREL corrupted the bookkeeping");
        assert!(nev == 1, "C10: announced a write for an unsolicited PUBREL");
    }
    kani::cover!(known, "known release");
    kani::cover!(id == 0xFFFF, "far away id");
    }
    core::mem::forget(r);
    core::mem::forget(ev);
    core::mem::forget(st);
    core::mem::forget(pkt);
}

/// PINGRESP, SUBACK, UNSUBACK: surfaced, no reply, only the ping flag changes
pub fn step_in_misc(max: u16) {
    let (mut st, pre) = arb_state(max, kani::any());
    let which: u8 = 0; // SUBACK / UNSUBACK: see in_misc_acks
    let pkt = match which {
        0 => Packet::PingResp(PingResp),
        1 => Packet::SubAck(SubAck { pkid: kani::any(), return_codes: Vec::new(), properties: None }),
        _ => Packet::UnsubAck(UnsubAck { pkid: kani::any(), reasons: Vec::new(), properties: None }),
    };
    let r = st.handle_incoming_packet(pkt.clone());
    let (ev, nev) = drain_events(&mut st);
    let post = snapshot(&mut st, max);
    'step: {
    assert!(nev == 1 && first_is_incoming(&ev, &pkt), "C10: received packet not surfaced exactly once");
    assert!(matches!(r, Ok(None)), "C10: no reply expected");
    let mut expect = pre;
    if which == 0 {
        expect.await_pingresp = false;
        assert!(!post.await_pingresp, "C18: PINGRESP must clear the outstanding-ping flag");
    }
    assert!(post == expect, "C10: bookkeeping touched");
    check_inv(&post);
    }
    core::mem::forget(r);
    core::mem::forget(ev);
    core::mem::forget(st);
    core::mem::forget(pkt);
}

/// CONNACK (success) with the MQTT 5 receive-maximum / topic-alias-maximum properties: the
/// negotiated window may only shrink below the configured one, never grow past it (the slot
/// table is sized by the configured limit), and nothing else in the bookkeeping moves.
pub fn step_in_connack(max: u16, with_props: bool) {
    let (mut st, pre) = arb_state(max, kani::any());
    let receive_max: Option<u16> = kani::any();
    let topic_alias_max: Option<u16> = kani::any();
    let properties = if with_props {
        Some(ConnAckProperties {
            session_expiry_interval: None,
            receive_max,
            max_qos: None,
            retain_available: None,
            max_packet_size: None,
            assigned_client_identifier: None,
            topic_alias_max,
            reason_string: None,
            user_properties: Vec::new(),
            wildcard_subscription_available: None,
            subscription_identifiers_available: None,
            shared_subscription_available: None,
            server_keep_alive: None,
            response_information: None,
            server_reference: None,
            authentication_method: None,
            authentication_data: None,
        })
    } else {
        None
    };
    let pkt = Packet::ConnAck(ConnAck { session_present: kani::any(), code: ConnectReturnCode::Success, properties });
    let r = st.handle_incoming_packet(pkt.clone());
    let (ev, nev) = drain_events(&mut st);
    let (window, upper) = {
        let (_l, _i, window, upper, _p, _r, _ip) = st.verif_fields();
        (*window, *upper)
    };
    let post = snapshot_with(&mut st, max, false);
    'step: {
    assert!(nev == 1 && first_is_incoming(&ev, &pkt), "C10: received packet not surfaced exactly once");
    assert!(matches!(r, Ok(None)), "C10: no reply expected");
    assert!(post == pre, "C10: bookkeeping touched");
    assert!(upper == max, "C07: the configured in-flight limit must not move");
    assert!(window <= max, "C07: the negotiated window exceeds the configured in-flight limit");
    if with_props {
        if let Some(rm) = receive_max {
            assert!(window <= rm, "C07: the negotiated window exceeds the broker's receive maximum");
            assert!(window == rm || window == max, "C07: the negotiated window is neither the receive maximum nor the configured limit");
        }
    }
    check_inv(&post);
    kani::cover!(!with_props || receive_max == Some(1), "receive maximum below the configured limit");
    kani::cover!(!with_props || receive_max == Some(0xFFFF), "receive maximum above the configured limit");
    kani::cover!(!with_props || receive_max.is_none(), "no receive maximum");
    }
    core::mem::forget(r);
    core::mem::forget(ev);
    core::mem::forget(st);
    core::mem::forget(pkt);
}

pub fn step_in_connack_props(max: u16) {
    step_in_connack(max, true)
}

pub fn step_in_connack_noprops(max: u16) {
    step_in_connack(max, false)
}

// ---------------------------------------------------------------------------------------------
// connection failure: clean() and session-present replay

/// `clean()` at an arbitrary INV state (= a connection failure at an arbitrary crash point),
/// then replay of everything it returned through `handle_outgoing_packet` (session present).
pub fn step_clean_replay(max: u16) {
    // all occupancy patterns with at most `max` entries, one after the other (constant-bound loop)
    let mut bits: u16 = 0;
    while bits < (1u16 << (2 * max)) {
        if bits.count_ones() as u16 <= max {
            clean_replay_one(max, bits);
        }
        bits += 1;
    }
}

pub fn clean_replay_one(max: u16, presence: u16) {
    let (mut st, pre) = arb_state_shaped(max, kani::any(), Some(presence));
    let pending = st.clean();
    let (_ev, nev) = drain_events(&mut st);
    core::mem::forget(_ev);
    let mid = snapshot(&mut st, max);
    assert!(mid.inflight == 0 && !mid.await_pingresp && mid.cpc == 0, "C02: clean() must reset the connection-scoped state");
    assert!(nev == 0, "C10: clean() announced a write");
    // what must come back: every held publish (once, original id and content), before any release
    let mut npub = 0usize;
    let mut nrel = 0usize;
    let mut i = 1usize;
    while i <= max as usize {
        if pre.slot[i].is_some() {
            npub += 1;
        }
        if pre.rel[i] {
            nrel += 1;
        }
        assert!(mid.slot[i].is_none() && !mid.rel[i], "C02: clean() left entries in the tables");
        i += 1;
    }
    assert!(pending.len() == npub + nrel, "C02: clean() returned a different number of requests than were held");
    // publishes first, in table order rotated behind the last acknowledged id (C11)
    let mut k = 0usize;
    let mut seen = [false; MAXM];
    let mut prev_rank: i32 = -1;
    while k < npub {
        match &pending[k] {
            Request::Publish(p) => {
                let v = view(p);
                let id = v.pkid as usize;
                assert!(id >= 1 && id <= max as usize && pre.slot[id] == Some(v), "C02: clean() returned a publish that was not held (id or content changed)");
                assert!(!seen[id], "C02: clean() returned a publish twice");
                seen[id] = true;
                // send order when the broker acknowledged in order: ids after last_puback first
                // MQTT 5 client: table order (the property's ordering clause is about the 3.1.1 client)
                let rank = id as i32;
                assert!(rank > prev_rank, "C02: clean() returned publishes in an unexpected order (twice?)");
                prev_rank = rank;
            }
            _ => assert!(false, "C11: a publish held for retransmission comes after a release / is missing"),
        }
        k += 1;
    }
    let mut relseen = [false; MAXM];
    while k < npub + nrel {
        match &pending[k] {
            Request::PubRel(r) => {
                let id = r.pkid as usize;
                assert!(id >= 1 && id <= max as usize && pre.rel[id] && !relseen[id], "C02: clean() returned a release that was not pending (or twice)");
                relseen[id] = true;
            }
            _ => assert!(false, "C02: pending release missing from clean()"),
        }
        k += 1;
    }
    // session present: the event loop replays `pending` first, unconditionally
    let mut k = 0usize;
    let n = pending.len();
    let mut it = pending.into_iter();
    while k < n {
        let req = it.next().unwrap();
        let want = req.clone();
        let r = st.handle_outgoing_packet(req);
        match (&want, &r) {
            (Request::Publish(p), Ok(Some(Packet::Publish(out)))) => {
                assert!(view(out) == view(p), "C11: replayed publish differs from the original (id / content)")
            }
            (Request::PubRel(p), Ok(Some(Packet::PubRel(out)))) => assert!(out.pkid == p.pkid, "C02: replayed release differs"),
            _ => assert!(false, "C02: carried-over request was not transmitted again"),
        }
        core::mem::forget(r);
        core::mem::forget(want);
        k += 1;
    }
    core::mem::forget(it);
    core::mem::forget(drain_events(&mut st));
    core::mem::forget(drain_events(&mut st));
    let post = snapshot(&mut st, max);
    // after the replay everything is held again exactly as before the failure
    let mut i = 1usize;
    while i <= max as usize {
        assert!(post.slot[i] == pre.slot[i], "C02: publish not held again after the replay");
        assert!(post.rel[i] == pre.rel[i], "C02: release not pending again after the replay");
        i += 1;
    }
    assert!(post.inflight == pre.inflight, "C07: inflight after replay");
    assert!(post.coll == pre.coll, "C02: parked publish lost across the reconnect");
    kani::cover!(presence != 0 || true, "reached the end");
    core::mem::forget(st);
}

macro_rules! v5_steps {
    ($($name:ident: $f:ident($max:expr), $unw:literal);* $(;)?) => {
        $( sm_proof!($unw, $name, { $f($max) }); )*
    };
}

v5_steps! {
    out_publish_m1: step_out_publish(1), 6;
    out_publish_m2: step_out_publish(2), 6;
    out_publish_m3: step_out_publish(3), 7;
    out_subscribe_m1: step_out_subscribe(1), 6;
    out_subscribe_m2: step_out_subscribe(2), 6;
    out_ping_m2: step_out_ping(2), 6;
    in_puback_m1: step_in_puback(1), 6;
    in_puback_m2: step_in_puback(2), 6;
    in_puback_m3: step_in_puback(3), 7;
    in_puback_failure_m2: step_in_puback_failure(2), 6;
    in_pubrec_failure_m2: step_in_pubrec_failure(2), 6;
    in_pubrec_m1: step_in_pubrec(1), 6;
    in_pubrec_m2: step_in_pubrec(2), 6;
    in_pubrec_m3: step_in_pubrec(3), 7;
    in_pubcomp_m1: step_in_pubcomp(1), 6;
    in_pubcomp_m2: step_in_pubcomp(2), 6;
    in_pubcomp_m3: step_in_pubcomp(3), 7;
    in_publish_m2: step_in_publish(2), 6;
    in_pubrel_m2: step_in_pubrel(2), 6;
    in_misc_m2: step_in_misc(2), 6;
    in_connack_m2: step_in_connack_props(2), 6;
    in_connack_noprops_m2: step_in_connack_noprops(2), 6;
    clean_replay_m1: step_clean_replay(1), 8;
    clean_replay_m2: step_clean_replay(2), 20;
}

// the real sizes `MqttState::new` asks the bit sets for (the stub scales them down)
sm_proof!(6, bitset_sizes, {
    let max: u16 = 3;
    let st = MqttState::new(max, false);
    unsafe {
        assert!(crate::sm::BITSET_NREQ == 2, "bitset: MqttState::new allocates exactly two bit sets");
        assert!(crate::sm::BITSET_REQUESTS[0] == max as usize + 1, "bitset: outgoing_rel must cover ids 0..=max");
        assert!(crate::sm::BITSET_REQUESTS[1] == u16::MAX as usize + 1, "bitset: incoming_pub must cover every u16 id");
    }
    core::mem::forget(st);
});


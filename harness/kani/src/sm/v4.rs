//! MQTT 3.1.1 client state machine: one-step (inductive) and scenario harnesses.
//!
//! Pre-states are ARBITRARY states satisfying the representation invariant INV below, built
//! through the `verif_fields` hook on top of the real `MqttState::new(max, manual_acks)`;
//! `max` (inflight limit) is concrete per instance (1, 2, 3), everything else is symbolic:
//! which ids are held, their QoS, their identity tag, pending releases, the allocator
//! position, the last acknowledged id, a parked collision, the ping flag.
//!
//!   INV  slot 0 empty, release bit 0 clear; slot i holds a QoS>0 publish with pkid == i;
//!        inflight == #held publishes + #pending releases <= max; last_pkid < max;
//!        last_puback <= max; a parked collision has 1 <= pkid <= max and its id is held by
//!        an unacknowledged publish or a pending release; collision_ping_count <= 1.
//!
//! Every step harness asserts INV again after the step (so the family is inductive: the
//! claims hold after histories of ANY length, for these `max`), plus the per-property
//! clauses, labelled "C02:", "C07:", "C10:", "C11:", "C18:".
//!
//! A publish's identity is carried in (dup, retain) - two ghost bits that the state machine
//! must hand back unchanged - so no payload allocation is needed.
use bytes::Bytes;
use rumqttc::mqttbytes::v4::*;
use rumqttc::mqttbytes::QoS;
use rumqttc::{Event, MqttState, Outgoing, Request, StateError};

/// Property selector of a harness instance: 0 = assert every clause, n = only the clauses labelled
/// "Cnn:" (plus unlabelled ones).  An assertion that fails cuts its path, so a sibling property's
/// clause that fails first would mask this property's clause; each property therefore gets its own
/// instances in which foreign clauses are not asserted at all.
pub const fn on(p: u8, label: u8) -> bool {
    p == 0 || p == label
}

pub const MAXM: usize = 4; // table slots tracked by the ghost (max <= 3)
pub const INC: usize = 4; // inbound QoS2 ids tracked: 0..INC

#[derive(Clone, Copy, PartialEq, Eq, Debug)]
pub struct P {
    pub pkid: u16,
    pub qos2: bool,
    pub tag: u8,
}

#[derive(Clone, Copy, PartialEq, Eq, Debug)]
pub struct Snap {
    pub max: u16,
    pub slot: [Option<P>; MAXM],
    pub rel: [bool; MAXM],
    pub inc: [bool; INC],
    pub inflight: u16,
    pub last_pkid: u16,
    pub last_puback: u16,
    pub coll: Option<P>,
    pub await_pingresp: bool,
    pub cpc: usize,
}

pub fn mk_publish(p: P) -> Publish {
    Publish {
        dup: p.tag & 1 != 0,
        retain: p.tag & 2 != 0,
        qos: if p.qos2 { QoS::ExactlyOnce } else { QoS::AtLeastOnce },
        topic: String::new(),
        pkid: p.pkid,
        payload: Bytes::new(),
    }
}

pub fn view(p: &Publish) -> P {
    P {
        pkid: p.pkid,
        qos2: p.qos == QoS::ExactlyOnce,
        tag: (p.dup as u8) | ((p.retain as u8) << 1),
    }
}

pub fn any_p(pkid: u16) -> P {
    let tag: u8 = kani::any();
    kani::assume(tag < 4);
    P { pkid, qos2: kani::any(), tag }
}

/// arbitrary INV state
pub fn arb_state(max: u16, manual_acks: bool) -> (MqttState, Snap) {
    arb_state_shaped(max, manual_acks, None)
}

/// `presence`: CONCRETE occupancy pattern (bit i-1: slot i holds a publish, bit max+i-1: release
/// i pending) for harnesses where the number of held entries must be concrete (clean(): every
/// `pending.push` under a symbolic condition makes the Vec length symbolic and CBMC then carries
/// the symbolic-size `grow` path).  Identity, QoS and everything else stay symbolic.
pub fn arb_state_shaped(max: u16, manual_acks: bool, presence: Option<u16>) -> (MqttState, Snap) {
    let mut st = MqttState::new(max, manual_acks);
    let mut s = Snap {
        max,
        slot: [None; MAXM],
        rel: [false; MAXM],
        inc: [false; INC],
        inflight: 0,
        last_pkid: kani::any(),
        last_puback: kani::any(),
        coll: None,
        await_pingresp: kani::any(),
        cpc: kani::any(),
    };
    kani::assume(s.last_pkid < max && s.last_puback <= max && s.cpc <= 1);
    {
        let (last_pkid, last_puback, inflight, _max_inflight, opub, orel, ipub) = st.verif_fields();
        let mut i = 1usize;
        while i <= max as usize {
            // Write a fully formed publish first and clear the slot afterwards: the `None` store
            // only touches the discriminant, so String/Bytes lengths stay CONCRETE (0) on both
            // branches and a later `clone()` does not allocate a symbolic-size buffer.
            let p = any_p(i as u16);
            opub[i] = Some(mk_publish(p));
            let has_pub = match presence {
                Some(bits) => bits & (1 << (i - 1)) != 0,
                None => kani::any(),
            };
            let has_rel = match presence {
                Some(bits) => bits & (1 << (max as usize + i - 1)) != 0,
                None => kani::any(),
            };
            if has_pub {
                s.slot[i] = Some(p);
                s.inflight += 1;
            } else {
                opub[i] = None;
            }
            if has_rel {
                orel.insert(i);
                s.rel[i] = true;
                s.inflight += 1;
            }
            i += 1;
        }
        let mut k = 0usize;
        while k < INC {
            if kani::any() {
                ipub.insert(k);
                s.inc[k] = true;
            }
            k += 1;
        }
        kani::assume(s.inflight <= max);
        *last_pkid = s.last_pkid;
        *last_puback = s.last_puback;
        *inflight = s.inflight;
    }
    {
        let k: u16 = kani::any();
        kani::assume(k >= 1 && k <= max);
        let c = any_p(k);
        st.collision = Some(mk_publish(c));
        if kani::any() {
            kani::assume(s.slot[k as usize].is_some() || s.rel[k as usize]);
            s.coll = Some(c);
        } else {
            st.collision = None;
        }
    }
    st.await_pingresp = s.await_pingresp;
    st.collision_ping_count = s.cpc;
    (st, s)
}

/// read the real state back into a ghost view (concrete indices only)
pub fn snapshot(st: &mut MqttState, max: u16) -> Snap {
    let coll = st.collision.as_ref().map(view);
    let await_pingresp = st.await_pingresp;
    let cpc = st.collision_ping_count;
    let (last_pkid, last_puback, inflight, max_inflight, opub, orel, ipub) = st.verif_fields();
    assert!(*max_inflight == max, "INV: max_inflight changed");
    assert!(opub.len() == max as usize + 1, "INV: table size changed");
    let mut s = Snap {
        max,
        slot: [None; MAXM],
        rel: [false; MAXM],
        inc: [false; INC],
        inflight: *inflight,
        last_pkid: *last_pkid,
        last_puback: *last_puback,
        coll,
        await_pingresp,
        cpc,
    };
    let mut i = 0usize;
    while i <= max as usize {
        s.slot[i] = opub[i].as_ref().map(view);
        s.rel[i] = orel.contains(i);
        i += 1;
    }
    let mut k = 0usize;
    while k < INC {
        s.inc[k] = ipub.contains(k);
        k += 1;
    }
    s
}

pub fn count(s: &Snap) -> u16 {
    let mut c = 0;
    let mut i = 0;
    while i < MAXM {
        if s.slot[i].is_some() {
            c += 1;
        }
        if s.rel[i] {
            c += 1;
        }
        i += 1;
    }
    c
}

/// INV on the post-state
pub fn check_inv<const PR: u8>(s: &Snap) {
    assert!(s.slot[0].is_none() && !s.rel[0], "C07: id 0 recorded as in flight");
    let mut i = 1usize;
    while i <= s.max as usize {
        if let Some(p) = s.slot[i] {
            assert!(p.pkid as usize == i, "C07: publish stored under a different id than it carries");
        }
        i += 1;
    }
    if on(PR, 7) { assert!(s.inflight == count(s), "C07: inflight counter out of step with the held publishes and releases") };
    if on(PR, 7) { assert!(s.inflight <= s.max, "C07: more unacknowledged publishes than the inflight limit") };
    if on(PR, 7) { assert!(s.last_pkid < s.max, "C07: allocator position outside 0..max") };
    if on(PR, 11) { assert!(s.last_puback <= s.max, "C11: last acknowledged id outside the table") };
    if let Some(c) = s.coll {
        assert!(c.pkid >= 1 && c.pkid <= s.max, "C07: parked collision with an id outside 1..=max");
        if on(PR, 7) { assert!(
            s.slot[c.pkid as usize].is_some() || s.rel[c.pkid as usize],
            "C07: collision pending although its id is not held - it can never be resolved"
        ) };
    }
}

/// C02: everything held before (slots, releases, parked collision) is still held after,
/// except `gone_pub` / `gone_rel` (finally acknowledged by this step).
pub fn check_held<const PR: u8>(pre: &Snap, post: &Snap, gone_pub: Option<u16>, gone_rel: Option<u16>) {
    let mut i = 1usize;
    while i <= pre.max as usize {
        if let Some(p) = pre.slot[i] {
            if gone_pub != Some(i as u16) {
                assert!(post.slot[i] == Some(p), "C02: an unacknowledged publish was dropped or altered");
            }
        }
        if pre.rel[i] && gone_rel != Some(i as u16) {
            assert!(post.rel[i], "C02: a pending release was dropped");
        }
        i += 1;
    }
    if let Some(c) = pre.coll {
        let still_parked = post.coll == Some(c);
        let registered = post.slot[c.pkid as usize] == Some(c);
        if on(PR, 2) { assert!(still_parked || registered, "C02: the publish parked on an id collision is no longer held") };
    }
}

pub fn drain_events(st: &mut MqttState) -> ([Option<Event>; 3], usize) {
    let n = st.events.len();
    let a = st.events.pop_front();
    let b = st.events.pop_front();
    let c = st.events.pop_front();
    ([a, b, c], n)
}

fn is_out(e: &Option<Event>, want: Outgoing) -> bool {
    matches!(e, Some(Event::Outgoing(o)) if *o == want)
}

// ---------------------------------------------------------------------------------------------
// user -> state machine

/// user publish under the event loop's admission rule (inflight < max, no collision pending)
pub fn step_out_publish<const PR: u8>(max: u16) {
    let (mut st, pre) = arb_state(max, false);
    kani::assume(crate::generated::admission::v4_takes_request(pre.inflight, max, pre.coll.is_some(), true)); // EventLoop::select guard, generated from source
    let qos_sel: u8 = kani::any();
    kani::assume(qos_sel <= 2);
    let mut p = any_p(0);
    p.qos2 = qos_sel == 2;
    let mut publish = mk_publish(p);
    if qos_sel == 0 {
        publish.qos = QoS::AtMostOnce;
    }
    let r = st.handle_outgoing_packet(Request::Publish(publish));
    let (ev, nev) = drain_events(&mut st);
    let post = snapshot(&mut st, max);
    let mut parked = false;
    'step: {
    check_inv::<PR>(&post);
    check_held::<PR>(&pre, &post, None, None);
    if qos_sel == 0 {
        match &r {
            Ok(Some(Packet::Publish(out))) => {
                assert!(out.pkid == 0 && out.qos == QoS::AtMostOnce, "C07: QoS0 publish must not carry an id");
                if on(PR, 2) { assert!(view(out).tag == p.tag, "C02: publish content altered") };
            }
            _ => if on(PR, 10) { assert!(false, "C10: QoS0 publish not handed to the network") },
        }
        if on(PR, 7) { assert!(post == pre, "C07: QoS0 publish must not touch the window") };
        if on(PR, 10) { assert!(nev == 1 && is_out(&ev[0], Outgoing::Publish(0)), "C10: exactly one Outgoing::Publish(0) announcement") };
        break 'step;
    }
    let id = pre.last_pkid + 1;
    if on(PR, 7) { assert!(post.last_pkid == if id == max { 0 } else { id }, "C07: cyclic id allocation") };
    let want = P { pkid: id, qos2: p.qos2, tag: p.tag };
    if pre.slot[id as usize].is_some() {
        // id still held by an unacknowledged publish: park, do not send, do not overwrite
        if on(PR, 7) { assert!(matches!(r, Ok(None)), "C07: colliding publish must not be put on the wire") };
        if on(PR, 2) { assert!(post.coll == Some(want), "C02: colliding publish must be parked") };
        if on(PR, 7) { assert!(post.slot[id as usize] == pre.slot[id as usize], "C07: unacknowledged publish overwritten") };
        if on(PR, 7) { assert!(post.inflight == pre.inflight, "C07: parked publish counted as in flight") };
        if on(PR, 10) { assert!(nev == 1 && is_out(&ev[0], Outgoing::AwaitAck(id)), "C10: AwaitAck announcement") };
        parked = true;
    } else {
        match &r {
            Ok(Some(Packet::Publish(out))) => {
                assert!(view(out) == want, "C07: publish on the wire carries a different id/content than recorded");
                if on(PR, 7) { assert!(out.pkid >= 1 && out.pkid <= max, "C07: packet id outside 1..=max") };
            }
            _ => if on(PR, 2) { assert!(false, "C02: accepted publish neither sent nor parked") },
        }
        if on(PR, 2) { assert!(post.slot[id as usize] == Some(want), "C02: accepted publish not recorded before sending") };
        if on(PR, 7) { assert!(post.inflight == pre.inflight + 1, "C07: inflight not incremented") };
        if on(PR, 7) { assert!(post.coll.is_none(), "C07: spurious collision") };
        if on(PR, 10) { assert!(nev == 1 && is_out(&ev[0], Outgoing::Publish(id)), "C10: exactly one Outgoing::Publish(id) announcement") };
        kani::cover!(id == max, "id wraps at the limit");
    }
    }
    kani::cover!(max < 2 || parked, "collision parked");
    core::mem::forget(r);
    core::mem::forget(ev);
    core::mem::forget(st);
}

/// A NEW user publish that reaches the state machine through `pending` (requests drained from the
/// channel at a connection failure are appended to `pending`, and `select()` takes pending requests
/// unconditionally - see the generated guard with pending_empty = false).  Same post-conditions as a
/// normally admitted publish: whatever was held or parked before must still be held.
pub fn step_out_publish_via_pending<const PR: u8>(max: u16) {
    let (mut st, pre) = arb_state(max, false);
    kani::assume(crate::generated::admission::v4_takes_request(pre.inflight, max, pre.coll.is_some(), false));
    let mut p = any_p(0);
    let publish = mk_publish(p);
    let r = st.handle_outgoing_packet(Request::Publish(publish));
    let (ev, _nev) = drain_events(&mut st);
    let post = snapshot(&mut st, max);
    check_held::<PR>(&pre, &post, None, None);
    let id = pre.last_pkid + 1;
    p.pkid = id;
    let held = post.slot[id as usize] == Some(p) || post.coll == Some(p);
    if on(PR, 2) { assert!(held, "C02: publish taken from pending is neither recorded nor parked") };
    kani::cover!(pre.coll.is_some(), "a collision was already pending");
    core::mem::forget(r);
    core::mem::forget(ev);
    core::mem::forget(st);
}

/// a release carried over from the previous connection (`clean()` returns one `Request::PubRel`
/// per pending release; after `clean()` the tables are empty and inflight is 0, so here: an
/// arbitrary INV state in which this id's release is NOT pending, window not full)
pub fn step_out_pubrel<const PR: u8>(max: u16) {
    let (mut st, pre) = arb_state(max, false);
    let id: u16 = kani::any();
    kani::assume(id >= 1 && id <= max);
    kani::assume(!pre.rel[id as usize] && pre.inflight < max);
    let r = st.handle_outgoing_packet(Request::PubRel(PubRel::new(id)));
    let (ev, nev) = drain_events(&mut st);
    let post = snapshot(&mut st, max);
    if on(PR, 10) { assert!(matches!(&r, Ok(Some(Packet::PubRel(p))) if p.pkid == id), "C10: replayed release not handed to the network with its id") }
    if on(PR, 10) { assert!(nev == 1 && is_out(&ev[0], Outgoing::PubRel(id)), "C10: PUBREL announcement") }
    if on(PR, 2) { assert!(post.rel[id as usize], "C02: replayed release not pending again") }
    check_held::<PR>(&pre, &post, None, None);
    check_inv::<PR>(&post);
    if on(PR, 7) { assert!(post.inflight == pre.inflight + 1, "C07: a pending release occupies a window slot until PUBCOMP") }
    kani::cover!(pre.slot[id as usize].is_some() || max < 2, "release replayed while another publish is held");
    core::mem::forget(r);
    core::mem::forget(ev);
    core::mem::forget(st);
}

pub fn step_out_subscribe<const PR: u8>(max: u16) {
    let (mut st, pre) = arb_state(max, false);
    kani::assume(crate::generated::admission::v4_takes_request(pre.inflight, max, pre.coll.is_some(), true));
    let unsub: bool = kani::any();
    let r = if unsub {
        st.handle_outgoing_packet(Request::Unsubscribe(Unsubscribe::new("a")))
    } else {
        st.handle_outgoing_packet(Request::Subscribe(Subscribe::new("a", QoS::AtMostOnce)))
    };
    let (ev, nev) = drain_events(&mut st);
    let post = snapshot(&mut st, max);
    'step: {
    check_inv::<PR>(&post);
    check_held::<PR>(&pre, &post, None, None);
    let id = pre.last_pkid + 1;
    match &r {
        Ok(Some(Packet::Subscribe(s))) => {
            assert!(!unsub && s.pkid == id && id >= 1 && id <= max, "C07: subscribe id outside 1..=max");
            if on(PR, 10) { assert!(nev == 1 && is_out(&ev[0], Outgoing::Subscribe(id)), "C10: Outgoing::Subscribe announcement") };
        }
        Ok(Some(Packet::Unsubscribe(u))) => {
            assert!(unsub && u.pkid == id && id >= 1 && id <= max, "C07: unsubscribe id outside 1..=max");
            if on(PR, 10) { assert!(nev == 1 && is_out(&ev[0], Outgoing::Unsubscribe(id)), "C10: Outgoing::Unsubscribe announcement") };
        }
        _ => if on(PR, 10) { assert!(false, "C10: subscribe/unsubscribe not handed to the network") },
    }
    let mut expect = pre;
    expect.last_pkid = if id == max { 0 } else { id };
    if on(PR, 7) { assert!(post == expect, "C07: subscribe/unsubscribe must only advance the id allocator") };
    core::mem::forget(r);
    }
    core::mem::forget(ev);
    core::mem::forget(st);
}

/// keep-alive ping flag protocol
pub fn step_out_ping<const PR: u8>(max: u16) {
    let (mut st, pre) = arb_state(max, false);
    let r = st.handle_outgoing_packet(Request::PingReq(PingReq));
    let (ev, nev) = drain_events(&mut st);
    let post = snapshot(&mut st, max);
    'step: {
    check_inv::<PR>(&post);
    check_held::<PR>(&pre, &post, None, None);
    let coll_timeout = pre.coll.is_some() && pre.cpc + 1 >= 2;
    if coll_timeout {
        assert!(matches!(r, Err(StateError::CollisionTimeout)), "C18: second ping during an unresolved collision must fail");
    } else if pre.await_pingresp {
        assert!(
            matches!(r, Err(StateError::AwaitPingResp)),
            "C18: a ping while the previous one is unanswered must report the connection as failed"
        );
        if on(PR, 10) { assert!(nev == 0, "C10: announced a PINGREQ that was not sent") };
    } else {
        assert!(matches!(r, Ok(Some(Packet::PingReq))), "C18: ping refused although the broker answered the previous one");
        if on(PR, 18) { assert!(post.await_pingresp, "C18: outstanding-ping flag not set") };
        if on(PR, 10) { assert!(nev == 1 && is_out(&ev[0], Outgoing::PingReq), "C10: PINGREQ announcement") };
    }
    kani::cover!(coll_timeout, "collision timeout");
    kani::cover!(!coll_timeout && pre.await_pingresp, "silent broker detected");
    kani::cover!(matches!(r, Ok(Some(Packet::PingReq))), "ping sent");
    }
    core::mem::forget(r);
    core::mem::forget(ev);
    core::mem::forget(st);
}

// ---------------------------------------------------------------------------------------------
// broker -> state machine

pub fn any_id(max: u16) -> u16 {
    // 0, every table id, max+1, and a far away id - all classes of broker behaviour
    let id: u16 = kani::any();
    kani::assume(id <= max + 1 || id == 0xFFFF);
    id
}

fn first_is_incoming(ev: &[Option<Event>; 3], want: &Packet) -> bool {
    matches!(&ev[0], Some(Event::Incoming(p)) if p == want)
}

pub fn step_in_puback<const PR: u8>(max: u16) {
    let (mut st, pre) = arb_state(max, kani::any());
    let id = any_id(max);
    let pkt = Packet::PubAck(PubAck::new(id));
    let r = st.handle_incoming_packet(pkt.clone());
    let (ev, nev) = drain_events(&mut st);
    let post = snapshot(&mut st, max);
    'step: {
    assert!(nev >= 1 && first_is_incoming(&ev, &pkt), "C10: received packet not surfaced first, exactly once");
    let solicited = id >= 1 && id <= max && pre.slot[id as usize].is_some();
    if !solicited {
        assert!(matches!(r, Err(StateError::Unsolicited(x)) if x == id), "C10: unsolicited PUBACK must be reported as an error");
        let mut expect = pre;
        if id <= max {
            expect.last_puback = post.last_puback; // rotation hint only (see C11)
        }
        if on(PR, 10) { assert!(post == expect, "C10: unsolicited PUBACK corrupted the bookkeeping") };
        if on(PR, 10) { assert!(nev == 1, "C10: announced a write for an unsolicited PUBACK") };
        check_inv::<PR>(&post);
        kani::cover!(id == 0xFFFF, "far away id");
        kani::cover!(id <= max, "id inside the table but not held");
        break 'step;
    }
    check_inv::<PR>(&post);
    check_held::<PR>(&pre, &post, Some(id), None);
    if on(PR, 11) { assert!(post.last_puback == id, "C11: last acknowledged id not recorded") };
    let resolves = matches!(pre.coll, Some(c) if c.pkid == id);
    if resolves {
        let c = pre.coll.unwrap();
        match &r {
            Ok(Some(Packet::Publish(out))) => if on(PR, 2) { assert!(view(out) == c, "C02: released publish differs from the parked one") },
            _ => if on(PR, 7) { assert!(false, "C07: acknowledgement freed the colliding id but the parked publish was not sent") },
        }
        if on(PR, 2) { assert!(post.slot[id as usize] == Some(c), "C02: released publish not recorded as unacknowledged") };
        if on(PR, 7) { assert!(post.coll.is_none() && post.cpc == 0, "C07: collision not cleared") };
        if on(PR, 7) { assert!(post.inflight == pre.inflight, "C07: inflight after collision release") };
        if on(PR, 10) { assert!(nev == 2 && is_out(&ev[1], Outgoing::Publish(id)), "C10: released publish not announced exactly once") };
        kani::cover!(true, "collision resolved by PUBACK");
    } else {
        assert!(matches!(r, Ok(None)), "C10: PUBACK must not produce a reply");
        if on(PR, 7) { assert!(post.slot[id as usize].is_none(), "C07: acknowledged publish still held") };
        if on(PR, 7) { assert!(post.inflight == pre.inflight - 1, "C07: acknowledgement did not free the window") };
        if on(PR, 7) { assert!(post.coll == pre.coll, "C07: unrelated collision touched") };
        if on(PR, 10) { assert!(nev == 1, "C10: spurious announcement") };
        // the admission guard opens again as soon as the window has room
        if on(PR, 7) { assert!(post.inflight < max, "C07: window still full after an acknowledgement") };
    }
    }
    core::mem::forget(r);
    core::mem::forget(ev);
    core::mem::forget(st);
    core::mem::forget(pkt);
}

pub fn step_in_pubrec<const PR: u8>(max: u16) {
    let (mut st, pre) = arb_state(max, kani::any());
    let id = any_id(max);
    let pkt = Packet::PubRec(PubRec::new(id));
    let r = st.handle_incoming_packet(pkt.clone());
    let (ev, nev) = drain_events(&mut st);
    let post = snapshot(&mut st, max);
    'step: {
    assert!(nev >= 1 && first_is_incoming(&ev, &pkt), "C10: received packet not surfaced first, exactly once");
    let solicited = id >= 1 && id <= max && pre.slot[id as usize].is_some();
    if !solicited {
        assert!(matches!(r, Err(StateError::Unsolicited(x)) if x == id), "C10: unsolicited PUBREC must be reported as an error");
        if on(PR, 10) { assert!(post == pre, "C10: unsolicited PUBREC corrupted the bookkeeping") };
        if on(PR, 10) { assert!(nev == 1, "C10: announced a write for an unsolicited PUBREC") };
        break 'step;
    }
    // the id moves from "publish unacknowledged" to "release pending": still held (C02)
    if on(PR, 10) { assert!(matches!(r, Ok(Some(Packet::PubRel(ref x))) if x.pkid == id), "C10: PUBREC must be answered with PUBREL of the same id") };
    if on(PR, 10) { assert!(nev == 2 && is_out(&ev[1], Outgoing::PubRel(id)), "C10: PUBREL not announced exactly once") };
    if on(PR, 2) { assert!(post.slot[id as usize].is_none() && post.rel[id as usize], "C02: release not recorded as pending") };
    check_held::<PR>(&pre, &post, Some(id), None);
    if !pre.rel[id as usize] {
        check_inv::<PR>(&post);
        if on(PR, 7) { assert!(post.inflight == pre.inflight, "C07: QoS2 flow stays in flight until PUBCOMP") };
    }
    kani::cover!(max < 2 || pre.rel[id as usize], "id reused while its previous release was still pending");
    }
    core::mem::forget(r);
    core::mem::forget(ev);
    core::mem::forget(st);
    core::mem::forget(pkt);
}

pub fn step_in_pubcomp<const PR: u8>(max: u16) {
    let (mut st, pre) = arb_state(max, kani::any());
    let id = any_id(max);
    let pkt = Packet::PubComp(PubComp::new(id));
    let r = st.handle_incoming_packet(pkt.clone());
    let (ev, nev) = drain_events(&mut st);
    let post = snapshot(&mut st, max);
    let mut seen_occupied_again = false;
    'step: {
    assert!(nev >= 1 && first_is_incoming(&ev, &pkt), "C10: received packet not surfaced first, exactly once");
    let solicited = id >= 1 && id <= max && pre.rel[id as usize];
    if !solicited {
        assert!(matches!(r, Err(StateError::Unsolicited(x)) if x == id), "C10: unsolicited PUBCOMP must be reported as an error");
        if on(PR, 10) { assert!(post == pre, "C10: unsolicited PUBCOMP corrupted the bookkeeping") };
        if on(PR, 10) { assert!(nev == 1, "C10: announced a write for an unsolicited PUBCOMP") };
        break 'step;
    }
    check_held::<PR>(&pre, &post, None, Some(id));
    check_inv::<PR>(&post);
    if on(PR, 7) { assert!(!post.rel[id as usize], "C07: completed release still pending") };
    let resolves = matches!(pre.coll, Some(c) if c.pkid == id) && pre.slot[id as usize].is_none();
    if resolves {
        let c = pre.coll.unwrap();
        match &r {
            Ok(Some(Packet::Publish(out))) => if on(PR, 2) { assert!(view(out) == c, "C02: released publish differs from the parked one") },
            _ => if on(PR, 7) { assert!(false, "C07: PUBCOMP freed the colliding id but the parked publish was not sent") },
        }
        if on(PR, 2) { assert!(post.slot[id as usize] == Some(c), "C02: publish released by PUBCOMP is on the wire but not recorded as unacknowledged") };
        if on(PR, 7) { assert!(post.coll.is_none() && post.cpc == 0, "C07: collision not cleared") };
        if on(PR, 10) { assert!(nev == 2 && is_out(&ev[1], Outgoing::Publish(id)), "C10: released publish not announced exactly once") };
        kani::cover!(true, "collision resolved by PUBCOMP");
    } else if matches!(pre.coll, Some(c) if c.pkid == id) {
        // the colliding id is still held by a NEWER publish: the parked one must stay parked
        if on(PR, 2) { assert!(post.coll == pre.coll || post.slot[id as usize] == pre.coll, "C02: parked publish lost on PUBCOMP") };
        seen_occupied_again = true;
    } else {
        assert!(matches!(r, Ok(None)), "C10: PUBCOMP must not produce a reply");
        if on(PR, 7) { assert!(post.inflight == pre.inflight - 1, "C07: PUBCOMP did not free the window") };
        if on(PR, 10) { assert!(nev == 1, "C10: spurious announcement") };
    }
    }
    kani::cover!(max < 2 || seen_occupied_again, "PUBCOMP for an id whose slot is occupied again");
    core::mem::forget(r);
    core::mem::forget(ev);
    core::mem::forget(st);
    core::mem::forget(pkt);
}

/// inbound QoS flows: PUBLISH q0/q1/q2 and PUBREL
pub fn step_in_publish<const PR: u8>(max: u16) {
    let manual: bool = kani::any();
    let (mut st, pre) = arb_state(max, manual);
    let qos_sel: u8 = kani::any();
    kani::assume(qos_sel <= 2);
    let id: u16 = kani::any();
    kani::assume((id as usize) < INC);
    kani::assume((qos_sel == 0) == (id == 0));
    let mut publish = mk_publish(any_p(id));
    publish.qos = match qos_sel {
        0 => QoS::AtMostOnce,
        1 => QoS::AtLeastOnce,
        _ => QoS::ExactlyOnce,
    };
    let pkt = Packet::Publish(publish);
    let r = st.handle_incoming_packet(pkt.clone());
    let (ev, nev) = drain_events(&mut st);
    let post = snapshot(&mut st, max);
    'step: {
    assert!(nev >= 1 && first_is_incoming(&ev, &pkt), "C10: received publish not surfaced first, exactly once");
    check_inv::<PR>(&post);
    let mut expect = pre;
    if qos_sel == 2 {
        expect.inc[id as usize] = true;
    }
    if on(PR, 10) { assert!(post == expect, "C10: inbound publish touched unrelated bookkeeping") };
    if qos_sel == 0 || manual {
        assert!(matches!(r, Ok(None)), "C10: no automatic acknowledgement expected (QoS0 / manual acks)");
        if on(PR, 10) { assert!(nev == 1, "C10: announced an acknowledgement that was not sent") };
    } else if qos_sel == 1 {
        assert!(matches!(r, Ok(Some(Packet::PubAck(ref a))) if a.pkid == id), "C10: QoS1 publish must be answered with PUBACK of its id");
        if on(PR, 10) { assert!(nev == 2 && is_out(&ev[1], Outgoing::PubAck(id)), "C10: PUBACK not announced exactly once") };
    } else {
        assert!(matches!(r, Ok(Some(Packet::PubRec(ref a))) if a.pkid == id), "C10: QoS2 publish must be answered with PUBREC of its id");
        if on(PR, 10) { assert!(nev == 2 && is_out(&ev[1], Outgoing::PubRec(id)), "C10: PUBREC not announced exactly once") };
    }
    kani::cover!(qos_sel == 2 && !manual, "qos2 auto ack");
    kani::cover!(qos_sel == 1 && manual, "qos1 manual ack");
    }
    core::mem::forget(r);
    core::mem::forget(ev);
    core::mem::forget(st);
    core::mem::forget(pkt);
}

pub fn step_in_pubrel<const PR: u8>(max: u16) {
    let (mut st, pre) = arb_state(max, kani::any());
    let id: u16 = kani::any();
    kani::assume((id as usize) < INC || id == 0xFFFF);
    let pkt = Packet::PubRel(PubRel::new(id));
    let r = st.handle_incoming_packet(pkt.clone());
    let (ev, nev) = drain_events(&mut st);
    let post = snapshot(&mut st, max);
    'step: {
    assert!(nev >= 1 && first_is_incoming(&ev, &pkt), "C10: received packet not surfaced first, exactly once");
    check_inv::<PR>(&post);
    let known = (id as usize) < INC && pre.inc[id as usize];
    if known {
        assert!(matches!(r, Ok(Some(Packet::PubComp(ref a))) if a.pkid == id), "C10: release of a known id must be answered with PUBCOMP");
        if on(PR, 10) { assert!(nev == 2 && is_out(&ev[1], Outgoing::PubComp(id)), "C10: PUBCOMP not announced exactly once") };
        let mut expect = pre;
        expect.inc[id as usize] = false;
        if on(PR, 10) { assert!(post == expect, "C10: PUBREL touched unrelated bookkeeping") };
    } else {
        assert!(matches!(r, Err(StateError::Unsolicited(x)) if x == id), "C10: unsolicited PUBREL must be reported as an error");
        if on(PR, 10) { assert!(post == pre, "C10: unsolicited PUBREL corrupted the bookkeeping") };
        if on(PR, 10) { assert!(nev == 1, "C10: announced a write for an unsolicited PUBREL") };
    }
    kani::cover!(known, "known release");
    kani::cover!(id == 0xFFFF, "far away id");
    }
    core::mem::forget(r);
    core::mem::forget(ev);
    core::mem::forget(st);
    core::mem::forget(pkt);
}

/// PINGRESP, SUBACK, UNSUBACK: surfaced, no reply, only the ping flag changes
pub fn step_in_misc<const PR: u8>(max: u16) {
    let (mut st, pre) = arb_state(max, kani::any());
    let which: u8 = 0; // SUBACK / UNSUBACK: see in_misc_acks
    let pkt = match which {
        0 => Packet::PingResp,
        1 => Packet::SubAck(SubAck::new(kani::any(), Vec::new())),
        _ => Packet::UnsubAck(UnsubAck::new(kani::any())),
    };
    let r = st.handle_incoming_packet(pkt.clone());
    let (ev, nev) = drain_events(&mut st);
    let post = snapshot(&mut st, max);
    'step: {
    assert!(nev == 1 && first_is_incoming(&ev, &pkt), "C10: received packet not surfaced exactly once");
    if on(PR, 10) { assert!(matches!(r, Ok(None)), "C10: no reply expected") };
    let mut expect = pre;
    if which == 0 {
        expect.await_pingresp = false;
        if on(PR, 18) { assert!(!post.await_pingresp, "C18: PINGRESP must clear the outstanding-ping flag") };
    }
    if on(PR, 10) { assert!(post == expect, "C10: bookkeeping touched") };
    check_inv::<PR>(&post);
    }
    core::mem::forget(r);
    core::mem::forget(ev);
    core::mem::forget(st);
    core::mem::forget(pkt);
}

// ---------------------------------------------------------------------------------------------
// connection failure: clean() and session-present replay

/// `clean()` at an arbitrary INV state (= a connection failure at an arbitrary crash point),
/// then replay of everything it returned through `handle_outgoing_packet` (session present).
pub fn step_clean_replay<const PR: u8>(max: u16) {
    // all occupancy patterns with at most `max` entries, one after the other (constant-bound loop)
    let mut bits: u16 = 0;
    while bits < (1u16 << (2 * max)) {
        if bits.count_ones() as u16 <= max {
            clean_replay_one::<PR>(max, bits);
        }
        bits += 1;
    }
}

pub fn clean_replay_one<const PR: u8>(max: u16, presence: u16) {
    let (mut st, pre) = arb_state_shaped(max, kani::any(), Some(presence));
    let pending = st.clean();
    let (_ev, nev) = drain_events(&mut st);
    core::mem::forget(_ev);
    let mid = snapshot(&mut st, max);
    if on(PR, 2) { assert!(mid.inflight == 0 && !mid.await_pingresp && mid.cpc == 0, "C02: clean() must reset the connection-scoped state") };
    if on(PR, 10) { assert!(nev == 0, "C10: clean() announced a write") };
    // what must come back: every held publish (once, original id and content), before any release
    let mut npub = 0usize;
    let mut nrel = 0usize;
    let mut i = 1usize;
    while i <= max as usize {
        if pre.slot[i].is_some() {
            npub += 1;
        }
        if pre.rel[i] {
            nrel += 1;
        }
        if on(PR, 2) { assert!(mid.slot[i].is_none() && !mid.rel[i], "C02: clean() left entries in the tables") };
        i += 1;
    }
    if on(PR, 2) { assert!(pending.len() == npub + nrel, "C02: clean() returned a different number of requests than were held") };
    // publishes first, in table order rotated behind the last acknowledged id (C11)
    let mut k = 0usize;
    let mut seen = [false; MAXM];
    let mut prev_rank: i32 = -1;
    while k < npub {
        match &pending[k] {
            Request::Publish(p) => {
                let v = view(p);
                let id = v.pkid as usize;
                if on(PR, 2) { assert!(id >= 1 && id <= max as usize && pre.slot[id] == Some(v), "C02: clean() returned a publish that was not held (id or content changed)") };
                if on(PR, 2) { assert!(!seen[id], "C02: clean() returned a publish twice") };
                seen[id] = true;
                // send order when the broker acknowledged in order: ids after last_puback first
                let lp = pre.last_puback as usize;
                let rank = if id > lp { (id - lp) as i32 } else { (id + max as usize + 1 - lp) as i32 };
                if on(PR, 11) { assert!(rank > prev_rank, "C11: retransmission order is not the original send order") };
                prev_rank = rank;
            }
            _ => if on(PR, 11) { assert!(false, "C11: a publish held for retransmission comes after a release / is missing") },
        }
        k += 1;
    }
    let mut relseen = [false; MAXM];
    while k < npub + nrel {
        match &pending[k] {
            Request::PubRel(r) => {
                let id = r.pkid as usize;
                if on(PR, 2) { assert!(id >= 1 && id <= max as usize && pre.rel[id] && !relseen[id], "C02: clean() returned a release that was not pending (or twice)") };
                relseen[id] = true;
            }
            _ => if on(PR, 2) { assert!(false, "C02: pending release missing from clean()") },
        }
        k += 1;
    }
    // session present: the event loop replays `pending` first, unconditionally
    let mut k = 0usize;
    let n = pending.len();
    let mut it = pending.into_iter();
    while k < n {
        let req = it.next().unwrap();
        let want = req.clone();
        let r = st.handle_outgoing_packet(req);
        match (&want, &r) {
            (Request::Publish(p), Ok(Some(Packet::Publish(out)))) => {
                assert!(view(out) == view(p), "C11: replayed publish differs from the original (id / content)")
            }
            (Request::PubRel(p), Ok(Some(Packet::PubRel(out)))) => if on(PR, 2) { assert!(out.pkid == p.pkid, "C02: replayed release differs") },
            _ => if on(PR, 2) { assert!(false, "C02: carried-over request was not transmitted again") },
        }
        core::mem::forget(r);
        core::mem::forget(want);
        k += 1;
    }
    core::mem::forget(it);
    core::mem::forget(drain_events(&mut st));
    core::mem::forget(drain_events(&mut st));
    let post = snapshot(&mut st, max);
    // after the replay everything is held again exactly as before the failure
    let mut i = 1usize;
    while i <= max as usize {
        assert!(post.slot[i] == pre.slot[i], "C02: publish not held again after the replay");
        if on(PR, 2) { assert!(post.rel[i] == pre.rel[i], "C02: release not pending again after the replay") };
        i += 1;
    }
    if on(PR, 7) { assert!(post.inflight == pre.inflight, "C07: inflight after replay") };
    if on(PR, 2) { assert!(post.coll == pre.coll, "C02: parked publish lost across the reconnect") };
    kani::cover!(presence != 0 || true, "reached the end");
    core::mem::forget(st);
}

// the real sizes `MqttState::new` asks the bit sets for (the stub scales them down)
sm_proof!(6, bitset_sizes, {
    let max: u16 = 3;
    let st = MqttState::new(max, false);
    unsafe {
        assert!(crate::sm::BITSET_NREQ == 2, "bitset: MqttState::new allocates exactly two bit sets");
        assert!(crate::sm::BITSET_REQUESTS[0] == max as usize + 1, "bitset: outgoing_rel must cover ids 0..=max");
        assert!(crate::sm::BITSET_REQUESTS[1] == u16::MAX as usize + 1, "bitset: incoming_pub must cover every u16 id");
    }
    kani::cover!(true, "sizes recorded");
    core::mem::forget(st);
});


// ---------------------------------------------------------------------------------------------
// Scenario harnesses from the real constructor (concrete control flow, symbolic identities):
// connection failure = `clean()`, session-present replay = feeding its result back.
// (`clean()` on an ARBITRARY state does not finish under CBMC - every `pending.push` under a
// symbolic condition makes the Vec length symbolic - so the crash-point clauses are decided on
// these histories instead; the step harnesses above cover everything that leads up to them.)

fn publish_req(tag: u8, qos2: bool) -> Request {
    Request::Publish(mk_publish(P { pkid: 0, qos2, tag }))
}

fn is_publish(r: &Request, pkid: u16, tag: u8, qos2: bool) -> bool {
    matches!(r, Request::Publish(p) if view(p) == P { pkid, qos2, tag })
}

/// ids wrap, the broker acknowledges in order, the connection fails: retransmission must be in
/// the original send order (C11), each publish once with its id and content (C02)
pub fn scn_wrap_order<const PR: u8>() {
    let mut st = MqttState::new(3, false);
    let (ta, tb, tc, td): (u8, u8, u8, u8) = (kani::any(), kani::any(), kani::any(), kani::any());
    kani::assume(ta < 4 && tb < 4 && tc < 4 && td < 4);
    let ra = st.handle_outgoing_packet(publish_req(ta, false));
    let rb = st.handle_outgoing_packet(publish_req(tb, false));
    let rc = st.handle_outgoing_packet(publish_req(tc, false));
    let k1 = st.handle_incoming_packet(Packet::PubAck(PubAck::new(1)));
    if on(PR, 10) { assert!(k1.is_ok(), "C10: in-order PUBACK rejected") };
    // d is admitted (inflight 2 < 3) and wraps onto the freed id 1
    let rd = st.handle_outgoing_packet(publish_req(td, false));
    if on(PR, 7) { assert!(matches!(&rd, Ok(Some(Packet::Publish(p))) if p.pkid == 1), "C07: wrapped publish must reuse the freed id 1") };
    let pending = st.clean();
    if on(PR, 2) { assert!(pending.len() == 3, "C02: clean() must return the three unacknowledged publishes") };
    if on(PR, 11) { assert!(is_publish(&pending[0], 2, tb, false), "C11: first retransmission must be b (id 2)") };
    if on(PR, 11) { assert!(is_publish(&pending[1], 3, tc, false), "C11: second retransmission must be c (id 3)") };
    if on(PR, 11) { assert!(is_publish(&pending[2], 1, td, false), "C11: d (id 1, sent last) must be retransmitted last") };
    if on(PR, 2) { assert!(st.inflight() == 0, "C02: clean() must reset the window") };
    kani::cover!(true, "done");
    core::mem::forget((ra, rb, rc, rd, k1, pending, st));
}

/// QoS2 flow half way + QoS1 publish, failure, session-present replay
pub fn scn_release_replay<const PR: u8>() {
    let mut st = MqttState::new(2, false);
    let (ta, tb): (u8, u8) = (kani::any(), kani::any());
    kani::assume(ta < 4 && tb < 4);
    let ra = st.handle_outgoing_packet(publish_req(ta, true));
    let k = st.handle_incoming_packet(Packet::PubRec(PubRec::new(1)));
    if on(PR, 10) { assert!(matches!(&k, Ok(Some(Packet::PubRel(r))) if r.pkid == 1), "C10: PUBREC must be answered with PUBREL") };
    let rb = st.handle_outgoing_packet(publish_req(tb, false));
    if on(PR, 7) { assert!(st.inflight() == 2, "C07: QoS2 flow stays in flight until PUBCOMP") };
    let pending = st.clean();
    if on(PR, 2) { assert!(pending.len() == 2, "C02: clean() must return the publish and the pending release") };
    if on(PR, 11) { assert!(is_publish(&pending[0], 2, tb, false), "C11: unacknowledged publishes come first") };
    if on(PR, 2) { assert!(matches!(&pending[1], Request::PubRel(r) if r.pkid == 1), "C02: pending release of id 1 missing") };
    // session present: both are transmitted again without user action and held again
    let mut it = pending.into_iter();
    let p0 = st.handle_outgoing_packet(it.next().unwrap());
    let p1 = st.handle_outgoing_packet(it.next().unwrap());
    if on(PR, 2) { assert!(matches!(&p0, Ok(Some(Packet::Publish(p))) if view(p) == P { pkid: 2, qos2: false, tag: tb }), "C02: publish not retransmitted unchanged") };
    if on(PR, 2) { assert!(matches!(&p1, Ok(Some(Packet::PubRel(r))) if r.pkid == 1), "C02: release not retransmitted") };
    if on(PR, 7) { assert!(st.inflight() == 2, "C07: inflight after replay") };
    let again = st.clean();
    if on(PR, 2) { assert!(again.len() == 2, "C02: a second failure during the replay must still carry both over") };
    kani::cover!(true, "done");
    core::mem::forget((ra, rb, k, p0, p1, it, again, st));
}

/// an outstanding ping does not survive the connection (no false alarm on the next one)
pub fn scn_ping_across_reconnect<const PR: u8>() {
    let mut st = MqttState::new(2, false);
    let p1 = st.handle_outgoing_packet(Request::PingReq(PingReq));
    if on(PR, 18) { assert!(matches!(&p1, Ok(Some(Packet::PingReq))), "C18: first ping refused") };
    let unanswered = st.handle_outgoing_packet(Request::PingReq(PingReq));
    if on(PR, 18) { assert!(matches!(&unanswered, Err(StateError::AwaitPingResp)), "C18: silent broker not detected at the second interval") };
    let pending = st.clean();
    if on(PR, 2) { assert!(pending.is_empty(), "C02: nothing to carry over") };
    let p2 = st.handle_outgoing_packet(Request::PingReq(PingReq));
    if on(PR, 18) { assert!(matches!(&p2, Ok(Some(Packet::PingReq))), "C18: keep-alive failure reported on a fresh connection that was never pinged") };
    let resp = st.handle_incoming_packet(Packet::PingResp);
    let p3 = st.handle_outgoing_packet(Request::PingReq(PingReq));
    if on(PR, 18) { assert!(resp.is_ok() && matches!(&p3, Ok(Some(Packet::PingReq))), "C18: false alarm although the broker answered the ping") };
    kani::cover!(true, "done");
    core::mem::forget((p1, unanswered, pending, p2, resp, p3, st));
}


macro_rules! v4_instances {
    ($modname:ident, $p:literal) => {
        pub mod $modname {
            use super::*;
            sm_proof!(6, out_publish_m1, { step_out_publish::<$p>(1) });
            sm_proof!(6, out_publish_m2, { step_out_publish::<$p>(2) });
            sm_proof!(7, out_publish_m3, { step_out_publish::<$p>(3) });
            sm_proof!(6, out_publish_via_pending_m2, { step_out_publish_via_pending::<$p>(2) });
            sm_proof!(6, out_pubrel_m2, { step_out_pubrel::<$p>(2) });
            sm_proof!(6, out_subscribe_m1, { step_out_subscribe::<$p>(1) });
            sm_proof!(6, out_subscribe_m2, { step_out_subscribe::<$p>(2) });
            sm_proof!(6, out_ping_m2, { step_out_ping::<$p>(2) });
            sm_proof!(6, in_puback_m1, { step_in_puback::<$p>(1) });
            sm_proof!(6, in_puback_m2, { step_in_puback::<$p>(2) });
            sm_proof!(7, in_puback_m3, { step_in_puback::<$p>(3) });
            sm_proof!(6, in_pubrec_m1, { step_in_pubrec::<$p>(1) });
            sm_proof!(6, in_pubrec_m2, { step_in_pubrec::<$p>(2) });
            sm_proof!(7, in_pubrec_m3, { step_in_pubrec::<$p>(3) });
            sm_proof!(6, in_pubcomp_m1, { step_in_pubcomp::<$p>(1) });
            sm_proof!(6, in_pubcomp_m2, { step_in_pubcomp::<$p>(2) });
            sm_proof!(7, in_pubcomp_m3, { step_in_pubcomp::<$p>(3) });
            sm_proof!(6, in_publish_m2, { step_in_publish::<$p>(2) });
            sm_proof!(6, in_pubrel_m2, { step_in_pubrel::<$p>(2) });
            sm_proof!(6, in_misc_m2, { step_in_misc::<$p>(2) });
            sm_proof!(8, scn_ping_reconnect_m2, { scn_ping_across_reconnect::<$p>() });
        }
    };
}

v4_instances!(c02, 2);
v4_instances!(c07, 7);
v4_instances!(c10, 10);
v4_instances!(c11, 11);
v4_instances!(c18, 18);

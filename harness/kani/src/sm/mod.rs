//! Client protocol state machine (rumqttc::MqttState, v4 and v5): shared machinery for
//! C02 / C07 / C10 / C11 / C18.
//!
//! Stubs (each part of the claim):
//!  * std::time::Instant::now -> a fixed instant (no clause depends on elapsed time);
//!  * fixedbitset::FixedBitSet::with_capacity -> a SCALED set of min(bits, 128) bits built with
//!    the real `FixedBitSet::new` + `grow` (the 65 536-bit inbound set costs CBMC > 200 s to
//!    initialise); inbound QoS2 ids are drawn < 128, the requested sizes are recorded and
//!    asserted (`bitset_sizes` harness);
//!  * bytes -> the Vec-backed model.

use fixedbitset::FixedBitSet;
use std::time::Instant;

pub static mut BITSET_REQUESTS: [usize; 4] = [0; 4];
pub static mut BITSET_NREQ: usize = 0;

pub fn now_stub() -> Instant {
    // Instant is (secs: i64/u64, nanos: u32) on linux; any fixed valid value will do
    unsafe { core::mem::transmute::<(u64, u32, u32), Instant>((1_000, 0, 0)) }
}

pub const SCALED_BITS: usize = 128;

pub fn bitset_with_capacity_stub(bits: usize) -> FixedBitSet {
    unsafe {
        if BITSET_NREQ < 4 {
            BITSET_REQUESTS[BITSET_NREQ] = bits;
        }
        BITSET_NREQ += 1;
    }
    let mut b = FixedBitSet::new();
    b.grow(if bits < SCALED_BITS { bits } else { SCALED_BITS });
    b
}

/// `HashMap::new()` (v5 topic-alias table) seeds SipHash from the OS (`getrandom` syscall, FFI).
/// The alias table stays empty in these harnesses (inbound publishes carry no alias), so the keys
/// are never used; any fixed pair will do.
pub fn random_state_stub() -> std::hash::RandomState {
    unsafe { core::mem::transmute::<(u64, u64), std::hash::RandomState>((0x0123_4567_89ab_cdef, 0x0fed_cba9_8765_4321)) }
}

/// proof harness with the state-machine stubs attached
#[macro_export]
macro_rules! sm_proof {
    ($unwind:literal, $name:ident, $body:block) => {
        #[kani::proof]
        #[kani::unwind($unwind)]
        #[kani::stub(std::time::Instant::now, crate::sm::now_stub)]
        #[kani::stub(std::hash::RandomState::new, crate::sm::random_state_stub)]
        #[kani::stub(fixedbitset::FixedBitSet::with_capacity, crate::sm::bitset_with_capacity_stub)]
        #[kani::stub(std::collections::VecDeque::grow, crate::util::capstub::vecdeque_never_grows)]
        #[kani::stub(std::collections::VecDeque::with_capacity, crate::util::capstub::vecdeque_with_capacity)]
        #[kani::stub(std::vec::Vec::reserve, crate::util::capstub::vec_reserve_no_growth)]
        #[kani::stub(std::vec::Vec::with_capacity, crate::util::capstub::vec_with_capacity)]
        pub fn $name() $body
    };
}

pub mod v4;
pub mod v5;

//! Inductive step on the outbound window of `Outgoing`.
//!
//! Pre-state (representation invariant INV, which `Outgoing::new` establishes and which the
//! post-conditions below re-establish): `inflight_buffer` is a cyclic run of N consecutive
//! packet ids in 1..=100 ending at the last id handed out, `last_pkid` is that id (0 standing
//! for "100 was the last"), N <= 100.  N is concrete per harness instance, the position in
//! the id cycle (`last_pkid`) and all cursors / filter indexes are symbolic.
//! Step: `push_forwards(m forwards, qos, filter)` with m in 0..=2 and m <= free_slots()
//! (the contract `forward_device_data` keeps by reading at most free_slots() messages), or
//! `register_ack(id)` with a fully symbolic id.
use bytes::Bytes;
use rumqttd::protocol::Publish;
use rumqttd::verif_api::Outgoing;
use rumqttd::{Forward, Notification};
use std::collections::VecDeque;

const MAXW: usize = 100;

/// id that follows `id` in the cycle 1..=100
fn succ(id: u16) -> u16 {
    if id >= 100 {
        1
    } else {
        id + 1
    }
}

/// the i-th (0-based) id of a run of `n` consecutive ids ending at `last` (1..=100)
fn run_id(last: u16, n: usize, i: usize) -> u16 {
    // last - (n-1-i) in the cycle
    let back = (n - 1 - i) as u16; // < 100
    if last > back {
        last - back
    } else {
        last + 100 - back
    }
}

fn pre_state(n: usize) -> (Outgoing, u16) {
    let (mut out, _rx) = Outgoing::verif_new(String::new());
    let last_pkid: u16 = kani::any();
    kani::assume(last_pkid <= 99);
    if n == 0 {
        out.verif_set_window(last_pkid, VecDeque::with_capacity(MAXW));
        core::mem::forget(_rx);
        return (out, last_pkid);
    }
    let last = if last_pkid == 0 { 100 } else { last_pkid };
    let mut w: VecDeque<(u16, usize, Option<(u64, u64)>)> = VecDeque::with_capacity(MAXW);
    let mut i = 0;
    while i < n {
        let filter: usize = kani::any();
        let cursor: Option<(u64, u64)> = if kani::any() { Some((kani::any(), kani::any())) } else { None };
        w.push_back((run_id(last, n, i), filter, cursor));
        i += 1;
    }
    out.verif_set_window(last_pkid, w);
    core::mem::forget(_rx);
    (out, last_pkid)
}

fn forward(tag: u8) -> Forward {
    let mut publish = Publish::new(Bytes::from_static(b"t"), Bytes::from_static(b"p"), false);
    Forward {
        cursor: Some((0, tag as u64)),
        size: 0,
        publish,
        properties: None,
    }
}

/// `m` (number of forwards in the batch) is concrete per instance: a symbolic batch size makes
/// the queue lengths symbolic and CBMC then carries symbolic-size growth paths.
fn push_step(n: usize, m: usize) {
    let (mut out, last_pkid) = pre_state(n);
    assert!(out.free_slots() == MAXW - n, "window: free_slots");
    kani::assume(m <= out.free_slots());
    let qos: u8 = kani::any();
    kani::assume(qos <= 2);
    let filter: usize = kani::any();
    let mut fw: Vec<Forward> = Vec::with_capacity(2);
    if m >= 1 {
        fw.push(forward(1));
    }
    if m >= 2 {
        fw.push(forward(2));
    }
    let (buffered, inflight) = out.push_forwards(fw.into_iter(), qos, filter);
    assert!(buffered == m, "window: every forward is queued for the link");
    let (last_after, w) = out.verif_window();
    let w_len = w.len();
    if qos == 0 {
        assert!(w_len == n && last_after == last_pkid, "window: QoS0 must not touch ids or window");
        assert!(inflight == n, "window: reported inflight count");
    } else {
        assert!(w_len == n + m, "window: one slot per QoS>0 forward");
        assert!(inflight == n + m, "window: reported inflight count");
        assert!(w_len <= MAXW, "window: more than 100 unacknowledged publishes");
        // new ids continue the cyclic run -> with len <= 100 all ids in the window are distinct
        let mut prev = if last_pkid == 0 { 100 } else { last_pkid };
        let mut k = 0;
        while k < m {
            let (id, f, c) = w[n + k];
            assert!(id != 0 && id <= 100, "window: packet id out of 1..=100");
            assert!(id == succ(prev), "window: ids must continue the cyclic run (uniqueness)");
            assert!(f == filter, "window: filter index recorded");
            assert!(c == Some((0, (k + 1) as u64)), "window: cursor recorded for retransmission");
            prev = id;
            k += 1;
        }
        let want_last = if prev == 100 { 0 } else { prev };
        if m > 0 {
            assert!(last_after == want_last, "window: last_pkid bookkeeping");
        } else {
            assert!(last_after == last_pkid, "window: last_pkid unchanged");
        }
    }
    // what the link will see: the forwards, in order, carrying the recorded ids
    let mut k = 0;
    while k < m {
        let note = out.verif_pop_notification();
        match &note {
            Some(Notification::Forward(f)) => {
                let (_dup, _q, pkid) = f.publish.verif_header();
                if qos == 0 {
                    assert!(pkid == 0, "window: QoS0 forward must not carry an id");
                } else {
                    let (_l, w) = out.verif_window();
                    assert!(pkid == w[n + k].0, "window: forward carries a different id than recorded");
                }
                assert!(f.cursor == Some((0, (k + 1) as u64)), "window: forwards out of order");
            }
            _ => assert!(false, "window: forward not queued"),
        }
        core::mem::forget(note);
        k += 1;
    }
    kani::cover!(m == 0 || (qos > 0 && last_pkid == 99), "id 100 handed out, allocator wraps");
    kani::cover!(m == 0 || qos == 0, "qos0 batch");
    core::mem::forget(out);
}

fn ack_step(n: usize) {
    let (mut out, last_pkid) = pre_state(n);
    let id: u16 = kani::any();
    let oldest = if n > 0 {
        let last = if last_pkid == 0 { 100 } else { last_pkid };
        Some(run_id(last, n, 0))
    } else {
        None
    };
    let r = out.register_ack(id);
    let (last_after, w) = out.verif_window();
    assert!(last_after == last_pkid, "ack: must not move the id allocator");
    match oldest {
        None => {
            assert!(r.is_none(), "ack: nothing outstanding -> unsolicited");
            assert!(w.len() == 0, "ack: window stays empty");
        }
        Some(o) => {
            assert!(r.is_some() == (id == o), "ack: solicited iff it names the oldest outstanding id");
            if r.is_some() {
                assert!(w.len() == n - 1, "ack: frees exactly one slot");
                assert!(out.free_slots() == MAXW - n + 1, "ack: free_slots grows by one");
                if n > 1 {
                    assert!(w[0].0 == succ(o), "ack: next oldest is the successor id");
                }
            }
        }
    }
    kani::cover!(n == 0 || r.is_some(), "in-order ack");
    kani::cover!(r.is_none(), "unsolicited / out-of-order ack");
    core::mem::forget(out);
}

// QoS2: PUBREC moves the id to the release queue, PUBCOMP must come back in order
#[kani::proof]
#[kani::unwind(5)]
#[kani::stub(tracing::callsite::DefaultCallsite::interest, crate::util::tstub::never)]
#[kani::stub(tracing::__macro_support::__is_enabled, crate::util::tstub::not_enabled)]
#[kani::stub(tracing::Event::dispatch, crate::util::tstub::no_dispatch)]
pub fn pubrel_queue() {
    let (mut out, _rx) = Outgoing::verif_new(String::new());
    let a: u16 = kani::any();
    let b: u16 = kani::any();
    out.register_pubrec(a);
    out.register_pubrec(b);
    let x: u16 = kani::any();
    let r1 = out.register_pubcomp(x);
    assert!(r1.is_some() == (x == a), "pubcomp: solicited iff it names the oldest pending release");
    if r1.is_some() {
        let y: u16 = kani::any();
        let r2 = out.register_pubcomp(y);
        assert!(r2.is_some() == (y == b), "pubcomp: second release");
        let r3 = out.register_pubcomp(kani::any());
        assert!(r3.is_none(), "pubcomp: nothing pending -> unsolicited");
        kani::cover!(r2.is_some(), "both released in order");
    }
    kani::cover!(r1.is_none(), "unsolicited pubcomp");
    core::mem::forget(out);
    core::mem::forget(_rx);
}

macro_rules! window_instances {
    ($($name:ident: $body:expr, $unw:literal);* $(;)?) => {
        $( proof_router_leaf!($unw, $name, { $body }); )*
    };
}

window_instances! {
    push_n0_m0: push_step(0, 0), 5;
    push_n0_m2: push_step(0, 2), 5;
    push_n1_m1: push_step(1, 1), 5;
    push_n2_m2: push_step(2, 2), 5;
    push_n3_m2: push_step(3, 2), 6;
    ack_n0: ack_step(0), 5;
    ack_n1: ack_step(1), 5;
    ack_n2: ack_step(2), 5;
    ack_n3: ack_step(3), 6;
}

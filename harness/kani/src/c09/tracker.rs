//! Wake-up table of `Tracker::try_ready`, all (status, reason) pairs (fully symbolic).
use rumqttd::verif_api::{PauseReason, ScheduleReason, Status, Tracker};

fn any_pause() -> PauseReason {
    match kani::any::<u8>() % 3 {
        0 => PauseReason::Caughtup,
        1 => PauseReason::InflightFull,
        _ => PauseReason::Busy,
    }
}

fn any_reason() -> ScheduleReason {
    match kani::any::<u8>() % 5 {
        0 => ScheduleReason::Init,
        1 => ScheduleReason::NewFilter,
        2 => ScheduleReason::FreshData,
        3 => ScheduleReason::IncomingAck,
        _ => ScheduleReason::Ready,
    }
}

#[kani::proof]
#[kani::unwind(4)]
pub fn wakeup_table() {
    let mut t = Tracker::new(String::new());
    assert!(t.status == Status::Paused(PauseReason::Busy), "tracker: a new connection starts paused-busy");
    let ready_before: bool = kani::any();
    let pause = any_pause();
    if ready_before {
        t.status = Status::Ready;
    } else {
        t.pause(pause);
        assert!(t.status == Status::Paused(pause), "tracker: pause() records the reason");
    }
    let reason = any_reason();
    // Init / Ready are only ever sent to a paused-busy tracker (debug_assert in the code)
    if matches!(reason, ScheduleReason::Init | ScheduleReason::Ready) {
        kani::assume(!ready_before && pause == PauseReason::Busy);
    }
    let r = t.try_ready(reason);
    if ready_before {
        // already scheduled: never scheduled twice
        assert!(r.is_none(), "tracker: an already ready connection must not be queued again");
        assert!(t.status == Status::Ready, "tracker: stays ready");
        kani::cover!(true, "already ready");
        return;
    }
    let expect_wake = match reason {
        ScheduleReason::Init | ScheduleReason::Ready => true,
        ScheduleReason::NewFilter | ScheduleReason::FreshData => pause == PauseReason::Caughtup,
        // an acknowledgement frees the window: wakes inflight-full (and caught-up, so that
        // QoS2 releases go out) but never a connection whose link buffer is full (busy)
        ScheduleReason::IncomingAck => pause != PauseReason::Busy,
    };
    if expect_wake {
        assert!(r == Some(pause), "tracker: wake-up must report the previous pause reason");
        assert!(t.status == Status::Ready, "tracker: woken connection becomes ready");
    } else {
        assert!(r.is_none(), "tracker: wrong stimulus must not wake the connection");
        assert!(t.status == Status::Paused(pause), "tracker: stays paused for the same reason");
    }
    kani::cover!(reason == ScheduleReason::IncomingAck && pause == PauseReason::InflightFull, "ack frees a full window");
    kani::cover!(reason == ScheduleReason::IncomingAck && pause == PauseReason::Busy, "ack while busy");
    kani::cover!(reason == ScheduleReason::Ready && pause == PauseReason::Busy, "ready after busy");
    kani::cover!(reason == ScheduleReason::FreshData && pause == PauseReason::InflightFull, "fresh data while inflight-full");
}

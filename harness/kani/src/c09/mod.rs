//! C09 - broker outbound QoS>0 window is bounded, uniquely numbered, resumes on ack
//! (the `Outgoing` window and the `Tracker` wake-up table; the router loop itself is N/A).
//!
//! Real code: rumqttd::router::iobufs::Outgoing::{new, push_forwards, register_ack,
//! register_pubrec, register_pubcomp, free_slots}, router::scheduler::Tracker::{new,
//! try_ready, pause}.
pub mod tracker;
pub mod window;

"""Registry: which harness families decide which property, at which tier, with which
bounds.  The text here is what ends up in the evidence files; keep it truthful."""

BYTES_MODEL = ("bytes crate replaced (solver run only) by the Vec-backed model /verif/shims/bytes "
               "(same API and panics; no sharing / capacity / pointer identity)")

PROPS = {}

# ---------------------------------------------------------------------------
PROPS["SELFTEST"] = {
    "title": "driver self-test: a deliberately false assertion must come out as VIOLATION (not in MANIFEST)",
    "families": [
        {"name": "selftest", "filters": ["probe::failing"], "tier": "quick", "timeout": 120,
         "kind": "self-test", "bounds": "n/a", "encodes": ["bytes::BytesMut (model)"]},
    ],
}

# ---------------------------------------------------------------------------
VARINT_FNS = [
    "rumqttc::mqttbytes::{length, write_remaining_length}", "rumqttc::mqttbytes::v4::len_len",
    "rumqttc::v5::mqttbytes::v5::{length, write_remaining_length, len_len}",
    "rumqttd::protocol::v4::{length, write_remaining_length, len_len}",
    "rumqttd::protocol::v5::{length, write_remaining_length, len_len}",
]
CHECK_FNS = [
    "rumqttc::mqttbytes::{check, parse_fixed_header, length, FixedHeader::frame_length}",
    "rumqttc::v5::mqttbytes::v5::{check, parse_fixed_header, length, FixedHeader::frame_length}",
    "rumqttd::protocol::v4::{check, parse_fixed_header, length, FixedHeader::frame_length}",
    "rumqttd::protocol::v5::{check, parse_fixed_header, length, FixedHeader::frame_length}",
]

PROPS["C04"] = {
    "title": "Codecs round-trip every packet and interoperate between client and broker",
    "families": [
        {"name": "varint", "filters": ["c04::varint::"], "tier": "quick", "timeout": 300, "min_harnesses": 4,
         "kind": "R (reference encoder) + round trip, one harness per codec copy",
         "bounds": "len: usize fully symbolic (all 2^64 values, no bound); both loops <= 4 iterations "
                   "(4 x 7 bits), unwind 6 with unwinding assertions; one arbitrary trailing byte",
         "asserts": "write_remaining_length errs iff len > 268435455 and then writes nothing; otherwise "
                    "bytes written == returned count == len_len(len) == reference width, bytes equal the "
                    "reference encoding, length() on them (with/without a trailing byte) returns (width, len)",
         "encodes": VARINT_FNS, "stubs": [BYTES_MODEL]},
        {"name": "v4_fixed_size_packets", "filters": ["c04::rt_v4::puback::", "c04::rt_v4::pubrec::", "c04::rt_v4::pubrel::",
                                                      "c04::rt_v4::pubcomp::", "c04::rt_v4::connack::", "c04::rt_v4::suback::",
                                                      "c04::rt_v4::unsuback::", "c04::rt_v4::empty_packets::"],
         "tier": "quick", "timeout": 400, "jobs": 6, "min_harnesses": 8,
         "kind": "round trip (client v4 encode -> client v4 decode) + D (broker v4 encoder vs client v4 encoder, byte for byte)",
         "bounds": "PUBACK/PUBREC/PUBREL/PUBCOMP/UNSUBACK: packet id symbolic over 1..=65535; CONNACK: session flag and the six "
                   "3.1.1 return codes symbolic; SUBACK: id symbolic, two symbolic return codes; PINGREQ/PINGRESP/DISCONNECT",
         "asserts": "write Ok; bytes written == size() == returned count; decode yields an equal packet and consumes exactly the "
                    "frame; the broker encoder produces the same bytes as the client encoder for the same packet (so a "
                    "broker-produced frame decodes in the client to the same content)",
         "encodes": ["rumqttc::mqttbytes::v4::{Packet::read, Packet::write, Packet::size, PubAck, PubRec, PubRel, PubComp, "
                     "ConnAck, SubAck, UnsubAck, PingReq, PingResp, Disconnect}::{read, write, size}",
                     "rumqttd::protocol::v4::V4::write and the per-packet write functions for the same types"],
         "stubs": [BYTES_MODEL],
         "outside": ["broker DECODERS (V4/V5::read_mut): CBMC does not fold the packet-type dispatch there and walks all 14 "
                     "parsers with symbolic lengths - no instance finishes (measured)",
                     "string-bearing packets (PUBLISH, SUBSCRIBE, UNSUBSCRIBE, CONNECT) round trips and all MQTT 5 packets: "
                     "harnesses exist (harness/kani/src/c04/rt_v4.rs) but time out at 300-600 s",
                     "payloads beyond the remaining-length boundaries are covered only through the varint family"]},
        {"name": "v5_fixed_size_packets", "filters": ["c04::rt_v5::"], "tier": "quick", "timeout": 400, "jobs": 6, "min_harnesses": 12,
         "kind": "round trip (client v5 encode -> client v5 decode) + D (broker v5 encoder vs client v5 encoder, byte for byte)",
         "bounds": "PUBACK/PUBREC/PUBREL/PUBCOMP: packet id symbolic over 1..=65535, reason code concrete per instance (success short "
                   "form and one failure code each), no properties; PINGREQ/PINGRESP; DISCONNECT: normal (short form, full round trip) "
                   "and two router reasons (encoders only)",
         "asserts": "write Ok; bytes written == size() == returned count; decode yields an equal packet and consumes exactly the frame; "
                    "broker encoder bytes == client encoder bytes; DISCONNECT declares the remaining length it writes",
         "encodes": ["rumqttc::v5::mqttbytes::v5::{Packet::read, Packet::write, Packet::size, PubAck, PubRec, PubRel, PubComp, PingReq, "
                     "PingResp, Disconnect}::{read, write, size}",
                     "rumqttd::protocol::v5::V5::write and puback/pubrec/pubrel/pubcomp/ping/disconnect::write"],
         "stubs": [BYTES_MODEL],
         "outside": ["MQTT 5 properties (every Option absent), string-bearing MQTT 5 packets, MQTT 5 broker decoders"]},
    ],
}

PROPS["C05"] = {
    "title": "Decoders are total, bounded and chunking-independent on arbitrary bytes",
    "families": [
        {"name": "header", "filters": ["c05::header::"], "tier": "quick", "timeout": 300, "min_harnesses": 4,
         "kind": "R (reference header decoder), fully symbolic buffer, one harness per codec copy",
         "bounds": "buffer of N = 8 fully symbolic bytes, visible prefix n symbolic in 0..=8, max packet size "
                   "fully symbolic (usize; Option<u32> for the v5 client); unwind 7",
         "asserts": "check() total; Ok iff header complete and well formed, remaining_len <= max and n >= frame "
                    "length, returned header == reference; InsufficientBytes only while header/frame incomplete "
                    "and with the exact missing count; size-limit error iff declared length > max; malformed "
                    "iff 4th length byte has the continuation bit",
         "encodes": CHECK_FNS, "stubs": [],
         "outside": ["frames longer than the buffer bound are represented only by their header (declared length "
                     "up to 2^28-1 is covered, the body bytes are not present)"]},
        {"name": "client_v4_bodies", "filters": ["c05::body::v4_connack", "c05::body::v4_puback", "c05::body::v4_pubrec", "c05::body::v4_pubrel",
                                                 "c05::body::v4_pubcomp", "c05::body::v4_suback", "c05::body::v4_unsuback",
                                                 "c05::body::v4_pingreq", "c05::body::v4_pingresp", "c05::body::v4_disconnect"],
         "tier": "quick", "timeout": 400, "jobs": 6, "min_harnesses": 10,
         "kind": "totality + exact consumption of the MQTT 3.1.1 CLIENT decoder on complete frames with symbolic bodies",
         "bounds": "type byte concrete per instance (CONNACK, PUBACK, PUBREC, PUBREL, PUBCOMP, SUBACK, UNSUBACK, PINGREQ, PINGRESP, "
                   "DISCONNECT), declared remaining length every value 0..=4 (0..=3 for the empty packets), ALL body bytes symbolic",
         "asserts": "Packet::read never panics; consumes exactly the declared frame whether it returns a packet or an error; never "
                    "answers a complete frame with InsufficientBytes",
         "encodes": ["rumqttc::mqttbytes::v4::Packet::read and the read() of the ten fixed-size packet types"],
         "stubs": [BYTES_MODEL],
         "outside": ["string-bearing packet bodies (CONNECT, PUBLISH, SUBSCRIBE, UNSUBSCRIBE), invalid type nibbles 0 / 15, every MQTT 5 "
                     "body except the pings, and both broker decoders: harnesses exist (c05/body.rs) and time out"]},
    ],
}

# ---------------------------------------------------------------------------
TRACING_STUB = ("tracing events given empty bodies (tracing::callsite::DefaultCallsite::interest -> never, "
                "tracing::__macro_support::__is_enabled -> false, tracing::Event::dispatch -> no-op): the real "
                "dispatch path registers a thread-local destructor Kani cannot compile; claim = no subscriber installed")
PL_STUB = ("parking_lot::RawMutex::{lock_slow, unlock_slow} replaced by panicking stubs: harnesses are single "
           "threaded, an uncontended lock never takes the slow path (reaching it would fail the harness)")

C13_FNS = ["rumqttd::segments::CommitLog::{new, append, apply_retention, readv, next_offset, memory_segments_count}",
           "rumqttd::segments::segment::Segment::{new, with_offset, push, readv, next_offset, len, size}"]

PROPS["C13"] = {
    "title": "Commit log reads return exactly the retained suffix; retention is bounded",
    "families": [
        {"name": "append_step", "filters": ["c13::step::append_"], "tier": "quick", "timeout": 600, "jobs": 6, "mem_gb": 16,
         "min_harnesses": 13,
         "kind": "I (one append from an INV pre-state built with the real Segment::with_offset + push)",
         "bounds": "pre-state layout concrete per instance (1-3 segments, 1-2 entries each, max_mem_segments 1-3, head/base offsets "
                   "non-zero); sizes of retired segments' entries symbolic under INV, sizes of the ACTIVE segment's entries concrete "
                   "per instance at every boundary of 'full' (total 0, 1023, 1024, 1025, 2048, 512+512, 512+511, 1000+23, 1000+24, "
                   "65535) so that rotation is a concrete branch; appended size symbolic u16",
         "asserts": "append returns the log tail; rotates iff the active segment was full (>= max_segment_size) when the append "
                    "arrived; evicts exactly the whole oldest segment iff the segment limit is reached, nothing else changes; never "
                    "more than max_mem_segments; absolute offsets contiguous; next_offset() == tail",
         "encodes": C13_FNS, "stubs": [TRACING_STUB, BYTES_MODEL,
                    "Vec::with_capacity(1024) -> capacity 4, Vec::reserve on a non-empty Vec -> assertion that no growth is needed, "
                    "VecDeque::grow -> assertion (the ring never exceeds max_mem_segments)"],
         "assumes": ["INV (harness/kani/src/c13/mod.rs) on the pre-state; the layout post-condition re-establishes it"],
         "outside": ["more than 3 retained segments / 2 entries per segment in a pre-state", "reading the appended entry back in the "
                     "same harness (the combination runs out of memory; reads are decided by read_step)"]},
        {"name": "read_step", "filters": ["c13::step::read_"],
         "filters_quick": ["c13::step::read_fresh", "c13::step::read_s2_stale", "c13::step::read_s21_0", "c13::step::read_s21_1",
                           "c13::step::read_s12_0", "c13::step::read_s212_1"], "min_harnesses_quick": 6, "tier": "quick", "timeout": 900, "jobs": 3, "mem_gb": 18,
         "min_harnesses": 11, "jobs": 4,
         "kind": "I (one read from an INV state) against a closed-form reference",
         "bounds": "layout concrete per instance; cursor segment concrete per instance (every live segment, and a stale one "
                   "below head); cursor offset SYMBOLIC over every value the log can have issued for that segment; "
                   "len symbolic 0..=4; entry sizes symbolic",
         "asserts": "returns exactly the retained entries at/after the cursor, in order, no gaps/repeats, at most len, each "
                    "tagged with its own (segment, absolute offset); stale cursor resumes at the oldest retained entry; "
                    "Done iff nothing retained remains; continuation resumes exactly and is itself a valid cursor",
         "encodes": C13_FNS, "stubs": [TRACING_STUB, BYTES_MODEL], "assumes": ["INV on the pre-state"],
         "outside": ["len > 4 (idx + len can overflow in Segment::readv for len near u64::MAX; the router passes <= 100)"]},
        {"name": "fabricated", "filters": ["c13::step::fab_"],
         "filters_quick": ["c13::step::fab_s21_0", "c13::step::fab_s21_beyond"], "min_harnesses_quick": 2, "tier": "quick", "timeout": 900, "jobs": 3, "mem_gb": 18,
         "min_harnesses": 4,
         "kind": "no-panic for fabricated cursors",
         "bounds": "2-segment layout; cursor segment in {stale, each live one, beyond tail}; cursor offset ANY u64; len 0..=4",
         "asserts": "readv returns Ok, no panic/overflow/out-of-bounds (CBMC checks), never more than len entries",
         "encodes": C13_FNS, "stubs": [TRACING_STUB, BYTES_MODEL]},
        {"name": "history", "filters": ["c13::history::h_m1_"], "tier": "quick", "timeout": 900, "jobs": 3, "mem_gb": 18,
         "min_harnesses": 2,
         "kind": "H (real histories from CommitLog::new with concrete size vectors) tying INV states to reachable ones",
         "bounds": "4 appends with concrete sizes [1024, 512, 512, 7] and max_mem_segments = 1 (two rotations, two evictions), then one "
                   "read (live / stale cursor) with symbolic offset and len 0..=4; the 2- and 3-segment histories exist but do not finish",
         "asserts": "layout == documented retention policy; read post-condition as in read_step",
         "encodes": C13_FNS, "stubs": [TRACING_STUB, BYTES_MODEL]},
    ],
}

# ---------------------------------------------------------------------------
# client protocol state machine: harnesses shared by C02 / C07 / C10 / C11 / C18; every assertion is
# labelled with the property it belongs to, a check only looks at its own labels (+ unlabelled panics)
SM_STUBS = [
    BYTES_MODEL,
    "std::time::Instant::now -> fixed instant (no clause depends on elapsed time)",
    "fixedbitset::FixedBitSet::with_capacity -> scaled set of min(bits,128) bits built with the real new()+grow(); "
    "the sizes MqttState::new asks for (max_inflight+1 and 65536) are asserted by the bitset_sizes harness; "
    "inbound QoS2 ids are drawn from 0..4 and 0xFFFF",
    "VecDeque::with_capacity(100) (the event queue) -> capacity 4, VecDeque::grow -> failed assertion (a step never "
    "queues more than 3 events); Vec::reserve on a non-empty Vec -> assertion that no growth is needed: capacity is "
    "never semantics, and symbolic-size reallocations make CBMC run out of memory in array post-processing",
]
SM_V4_FNS = ["rumqttc::MqttState::{new, handle_outgoing_packet, handle_incoming_packet, clean, inflight}",
             "rumqttc::state::MqttState::{outgoing_publish, outgoing_subscribe, outgoing_unsubscribe, outgoing_ping, outgoing_pubrel, "
             "outgoing_puback, outgoing_pubrec, handle_incoming_puback, handle_incoming_pubrec, handle_incoming_pubrel, "
             "handle_incoming_pubcomp, handle_incoming_publish, handle_incoming_pingresp, check_collision, save_pubrel, next_pkid}"]
SM_INV = ("pre-state = ARBITRARY state under INV (slot i holds a QoS>0 publish with pkid i; slot 0 / release bit 0 empty; "
          "inflight == #held publishes + #pending releases <= max; last_pkid < max; last_puback <= max; a parked collision "
          "has 1 <= pkid <= max and its id is held; collision_ping_count <= 1); INV is re-asserted after every step, so the "
          "step harnesses are inductive over histories of any length")
SM_ADMISSION = ("user requests are taken only if inflight < max and no collision is pending - the guard of "
                "rumqttc::EventLoop::select (async, not executable by the solver; its text is pinned by a syntactic guard)")

SM_QUICK = {
    "C02": ["out_publish_via_pending_m2", "out_pubrel_m2", "out_publish_m2", "out_publish_m1", "in_puback_m1", "in_puback_m2", "in_pubrec_m2", "in_pubcomp_m1", "in_pubcomp_m2",
            "out_subscribe_m2", "out_ping_m2"],
    "C07": ["out_pubrel_m2", "out_publish_m1", "out_publish_m2", "out_subscribe_m2", "in_puback_m1", "in_puback_m2", "in_pubrec_m2",
            "in_pubcomp_m1", "in_pubcomp_m2"],
    "C10": ["out_pubrel_m2", "in_puback_m2", "in_pubrec_m2", "in_pubcomp_m2", "in_publish_m2", "in_pubrel_m2", "in_misc_m2", "out_publish_m2",
            "out_subscribe_m2", "out_ping_m2"],
    "C11": ["in_puback_m1", "in_puback_m2", "in_puback_m3"],
    "C18": ["out_ping_m2", "in_misc_m2", "scn_ping_reconnect_m2"],
}
# harnesses whose clauses of this property are known to fail on the unchanged tree are listed in known_findings.json
SM_ALL = {
    "C02": ["out_", "in_", "scn_ping"],
    "C07": ["out_publish_m", "out_pubrel", "out_subscribe", "out_ping", "in_"],
    "C10": ["out_publish_m", "out_pubrel", "out_subscribe", "out_ping", "in_", "scn_ping"],
    "C11": ["in_puback_m"],
    "C18": ["out_ping", "in_misc", "scn_ping"],
}


def sm_families(prop):
    pre = "sm::v4::c%s::" % prop[1:]
    return [
        {"name": "v4_steps", "filters": [pre + x for x in SM_ALL[prop]],
         "filters_quick": [pre + x for x in SM_QUICK[prop]], "min_harnesses_quick": len(SM_QUICK[prop]),
         "tier": "quick", "timeout": 900, "jobs": 6, "mem_gb": 16, "min_harnesses": len(SM_QUICK[prop]), "playback": False,
         "kind": "I (one inductive step from an arbitrary INV state), one harness per operation kind and inflight limit; "
                 "instances of this property assert only its own clauses (labelled %s:) plus INV-independent panics" % prop,
         "bounds": "max_inflight concrete per instance in {1,2,3}; held ids, their QoS and identity, pending releases, "
                   "allocator position, last acknowledged id, parked collision, ping flag, manual_acks: all symbolic; "
                   "broker packet ids symbolic over {0..=max+1, 0xFFFF}; unwind 6-8",
         "asserts": "C02 nothing held is dropped, released publishes are recorded; C07 ids in 1..=max, no overwrite of an "
                    "unacknowledged slot, window accounting, collision only while its id is held; C10 received packet surfaced "
                    "first exactly once, PUBACK/PUBREC/PUBCOMP replies, manual_acks, unsolicited acks -> Err without touching "
                    "the state, one announcement per write; C11 last acknowledged id recorded; C18 ping flag protocol",
         "encodes": SM_V4_FNS, "stubs": SM_STUBS, "assumes": [SM_INV, SM_ADMISSION],
         "outside": ["EventLoop::poll/select, Network::readb, timers (async/tokio)", "max_inflight > 3",
                     "MqttState::clean() with held publishes (CBMC > 48 GB)", "MQTT 5 state machine"]},
        {"name": "v5_steps", "filters": ["sm::v5::in_puback_m2", "sm::v5::in_puback_failure_m2", "sm::v5::in_pubrec_failure_m2",
                                         "sm::v5::in_pubcomp_m2", "sm::v5::out_publish_m2", "sm::v5::in_pubrec_m2",
                                         "sm::v5::in_publish_m2", "sm::v5::in_pubrel_m2", "sm::v5::out_subscribe_m2",
                                         "sm::v5::out_ping_m2", "sm::v5::in_misc_m2", "sm::v5::in_connack_",
                                         "sm::v5::out_publish_m1", "sm::v5::in_puback_m1", "sm::v5::in_pubrec_m1", "sm::v5::in_pubcomp_m1"],
         "tier": "thorough", "timeout": 2400, "jobs": 1, "mem_gb": 46, "min_harnesses": 17, "playback": False,
         "kind": "I (inductive steps of the MQTT 5 client state machine; shared by C02/C07/C10 - every clause asserted, one at a time "
                 "with up to 46 GB: each needs 3-15 min)",
         "bounds": "max_inflight 2 (and max_inflight 1 for outgoing publish, PUBACK, PUBREC, PUBCOMP); arbitrary INV state as for the 3.1.1 client; outgoing publish / subscribe / ping; incoming PUBACK "
                   "with success and with a failure reason, PUBREC with success and with a failure reason, PUBCOMP (success), "
                   "PUBLISH (QoS 0/1/2, no properties), PUBREL, PINGRESP, CONNACK with a symbolic receive-maximum / "
                   "topic-alias-maximum and without properties; broker ids symbolic over {0..=3, 0xFFFF}; no topic alias",
         "asserts": "as v4_steps, plus: a failure reason code still frees the slot and the window and resolves a collision parked on "
                    "that id; PUBCOMP is validated before the parked publish is touched",
         "encodes": ["rumqttc::v5::MqttState::{new, handle_incoming_packet, handle_incoming_puback, handle_incoming_pubrec, "
                     "handle_incoming_pubcomp, handle_incoming_publish, handle_incoming_pubrel, handle_incoming_pingresp, "
                     "handle_incoming_connack, handle_outgoing_packet, outgoing_publish, outgoing_subscribe, outgoing_ping, "
                     "save_pubrel, next_pkid, check_collision}"],
         "stubs": SM_STUBS + ["std::hash::RandomState::new -> fixed keys (the topic-alias HashMap stays empty)"],
         "assumes": [SM_INV],
         "outside": ["max_inflight 3 instances and clean()/replay for MQTT 5 (written in sm/v5.rs, not run)", "topic aliases, "
                     "states whose negotiated window is already below the configured limit, SUBACK/UNSUBACK/DISCONNECT/AUTH"]},
        {"name": "bitset_sizes", "filters": ["sm::v4::bitset_sizes"], "tier": "quick", "timeout": 300, "jobs": 6,
         "kind": "stub contract witness", "bounds": "max_inflight = 3",
         "asserts": "MqttState::new requests max+1 bits for outgoing_rel and 65536 bits for incoming_pub",
         "encodes": ["rumqttc::MqttState::new"], "stubs": SM_STUBS},
    ]

SM_GUARDS = [
    {"file": "rumqttc/src/eventloop.rs", "what": "admission guard of EventLoop::select",
     "must_contain": ["let inflight_full = self.state.inflight >= self.mqtt_options.inflight;",
                      "let collision = self.state.collision.is_some();",
                      "if !self.pending.is_empty() || (!inflight_full && !collision) => match o {"]},
    {"file": "rumqttc/src/eventloop.rs", "what": "EventLoop::clean carries state.clean() over first, then the drained channel",
     "ordered": True,
     "must_contain": ["pub fn clean(&mut self) {", "self.pending.extend(self.state.clean());",
                      "let mut requests_in_channel: Vec<_> = self.requests_rx.drain().collect();",
                      "self.pending.extend(requests_in_channel);"]},
    {"file": "rumqttc/src/eventloop.rs", "what": "pending dropped when the broker reports no session; errors move state to pending",
     "must_contain": ["if !connack.session_present { self.pending.clear(); }",
                      "Err(e) => { // MQTT requires that packets pending acknowledgement should be republished on session resume. // Move pending messages from state to eventloop. self.clean(); Err(e) }"]},
]

SM_TITLES = {
    "C02": "Client never loses an accepted QoS1/2 publish across acks and reconnects",
    "C07": "Client packet-id uniqueness and inflight-window flow control",
    "C10": "Client answers inbound QoS flows correctly and reports packets in order",
    "C11": "On session resume the client retransmits first and in original order",
    "C18": "Client keep-alive pings on time and detects a silent broker, no false alarms",
}
for _p, _t in SM_TITLES.items():
    _f = [f for f in sm_families(_p) if not (f["name"] == "v5_steps" and _p in ("C11", "C18"))]
    PROPS[_p] = {"title": _t, "families": _f, "guards": SM_GUARDS, "uses_admission": True}


# ---------------------------------------------------------------------------
PROPS["C09"] = {
    "title": "Broker outbound QoS>0 window is bounded, uniquely numbered, resumes on ack",
    "families": [
        {"name": "tracker", "filters": ["c09::tracker::"], "tier": "quick", "timeout": 300, "jobs": 6,
         "kind": "total table (all (status, reason) pairs symbolic)",
         "bounds": "status in {Ready, Paused(Caughtup|InflightFull|Busy)} x reason in {Init, NewFilter, FreshData, IncomingAck, Ready}",
         "asserts": "an acknowledgement wakes an inflight-full (and caught-up) connection but never a busy one; Ready wakes busy; "
                    "an already ready connection is never queued twice; wrong stimulus leaves the pause reason untouched",
         "encodes": ["rumqttd::router::scheduler::Tracker::{new, try_ready, pause}"], "stubs": []},
        {"name": "window", "filters": ["c09::window::ack_", "c09::window::pubrel_queue", "c09::window::push_n0_m0",
                                       "c09::window::push_n1_m1"], "tier": "quick", "timeout": 600, "jobs": 6, "min_harnesses": 7,
         "kind": "I (one step on the outbound window from a representation-invariant pre-state)",
         "bounds": "window of N in {0,1,2,3} consecutive ids ending at a SYMBOLIC position of the 1..=100 id cycle (so the 100 -> 1 "
                   "wrap is included), symbolic filter indexes / cursors; register_ack(id) with id fully symbolic; push_forwards "
                   "of 0 or 1 forwards with symbolic QoS 0..2; PUBREC/PUBCOMP queue with symbolic ids",
         "asserts": "ids non-zero and <= 100, new ids continue the cyclic run (=> pairwise distinct while <= 100 are outstanding), "
                    "the forward queued for the link carries the id recorded for it, QoS0 touches neither ids nor window; "
                    "register_ack is Some iff the id is the oldest outstanding one (unsolicited / out-of-order => None => the "
                    "router disconnects that connection), frees exactly one slot; PUBCOMP likewise in order",
         "encodes": ["rumqttd::router::iobufs::Outgoing::{new, push_forwards, register_ack, register_pubrec, register_pubcomp, free_slots}"],
         "stubs": [TRACING_STUB, PL_STUB, BYTES_MODEL],
         "assumes": ["pre-state = cyclic run of N consecutive ids ending at last_pkid (what Outgoing::new + push_forwards produce)",
                     "push_forwards is called with at most free_slots() forwards (forward_device_data reads at most that many)"],
         "outside": ["windows with more than 3 outstanding ids (only the two ends of the queue are touched by the operations)",
                     "batches of 2+ forwards (harnesses exist, CBMC runs out of memory)",
                     "forward_device_data / consume / reschedule in Router (HashMap, Slab): that the router never pushes more than "
                     "free_slots() and resumes 'without further stimulus' is not decided here"]},
    ],
}

PROPS["C12"] = {
    "title": "Topic-filter matching and validation follow the MQTT rules in every copy",
    "families": [
        {"name": "validators", "filters": ["c12::vf_", "c12::vt_", "c12::hw_"],
         "filters_quick": ["c12::vf_c4_n2", "c12::vf_c4_n3", "c12::vf_c5_n2", "c12::vf_c5_n3", "c12::vf_d_n2", "c12::vf_d_n3",
                           "c12::vf_c4_n1", "c12::vf_c5_n1", "c12::vf_d_n1", "c12::vt_c4_n3", "c12::vt_c5_n3", "c12::vt_d_n3",
                           "c12::hw_c4_n3", "c12::hw_c5_n3", "c12::hw_d_n3"], "min_harnesses_quick": 15, "tier": "quick", "timeout": 900, "jobs": 8,
         "min_harnesses": 40,
         "kind": "R (byte-level reference validators), one real function of one copy per harness",
         "bounds": "strings of 0..=5 bytes (length concrete per instance), contents symbolic over {a, A, /, +, #, $, e-acute(2 bytes)}",
         "asserts": "valid_filter / valid_topic / has_wildcards of client v4, client v5 and broker equal the MQTT rule: wildcards "
                    "only as whole levels, '#' only last, filters non-empty, topic names without wildcards; no panic",
         "encodes": ["rumqttc::mqttbytes::{valid_filter, valid_topic, has_wildcards}", "rumqttc::v5::mqttbytes::{valid_filter, valid_topic, has_wildcards}",
                     "rumqttd::protocol::{valid_filter, valid_topic, has_wildcards}"],
         "stubs": ["core::slice::memchr::{memchr, memrchr} -> byte loops with the same contract (the word-at-a-time originals do not finish)"],
         "outside": ["strings longer than 5 bytes; alphabet beyond the 7 symbols (level structure is what the rules are about)",
                     "DataLog::matches cache (HashMap)"]},
        {"name": "matches", "filters": ["c12::m_c4_t0_", "c12::m_c5_t0_f", "c12::m_d_t0_f", "c12::m_c4_t1_f0", "c12::m_c4_t1_f1", "c12::m_c4_t1_f2", "c12::m_c4_t2_f0",
                                        "c12::m_c4_t2_f1", "c12::m_c4_t2_f2", "c12::m_c5_t1_f1", "c12::m_c5_t2_f1", "c12::m_c5_t2_f2",
                                        "c12::m_d_t1_f1", "c12::m_d_t2_f1", "c12::m_d_t2_f2", "c12::agree_t1_f1", "c12::agree_t2_f1"],
         "filters_quick": ["c12::m_c4_t1_f1", "c12::m_c4_t2_f1", "c12::m_c5_t1_f1", "c12::m_c5_t2_f1", "c12::m_d_t1_f1", "c12::m_d_t2_f1",
                           "c12::m_c4_t0_f1", "c12::m_c5_t0_f1", "c12::m_d_t0_f1", "c12::m_c4_t0_f2", "c12::m_c5_t0_f2", "c12::m_d_t0_f2"],
         "min_harnesses_quick": 12, "min_harnesses": 15,
         "tier": "quick", "timeout_quick": 900, "timeout_thorough": 2400, "jobs": 6,
         "kind": "R (byte-level reference matcher on valid pairs) + totality on all pairs, one copy per harness; D (3-copy agreement) in thorough",
         "bounds": "topic and filter of CONCRETE lengths (pairs up to 2x2; quick: 1x1 and 2x1 for each copy), contents symbolic over "
                   "{a, A, /, +, #, $, e-acute(2 bytes)} - 2-byte topics include the multi-byte first character",
         "asserts": "matches() never panics on any pair; on (valid topic, valid filter) pairs it equals the MQTT rules ('+' one level, "
                    "trailing '#' the parent and everything below, literal levels case-sensitive); a $-topic is matched by no filter; "
                    "thorough: the three copies agree on every pair",
         "encodes": ["rumqttc::mqttbytes::matches", "rumqttc::v5::mqttbytes::matches", "rumqttd::protocol::matches"],
         "stubs": ["core::slice::memchr::{memchr, memrchr} -> byte loops with the same contract"],
         "outside": ["pairs longer than 2x2 bytes (harnesses exist up to 4x4; one 2x2 instance takes 5-10 min)"]},
    ],
}

PROPS["C20"] = {
    "title": "Messages cross protocol versions; every router notification is encodable by the link's protocol",
    "families": [
        {"name": "forward_to_v4", "filters": ["c20::forward_props_q0_to_v4", "c20::forward_props_q1_to_v4", "c20::forward_props_q2_to_v4", "c20::unschedule"], "tier": "quick", "timeout": 300, "jobs": 6,
         "min_harnesses": 4,
         "kind": "totality of the 3.1.1 encoder on what the router forwards",
         "bounds": "Forward{publish: topic/payload 1 symbolic byte, QoS concrete per instance, id symbolic; properties: every Option "
                   "field symbolic present/absent} converted with From<Notification> and written with V4::write",
         "asserts": "a publish stored WITH MQTT 5 properties (any v5 publisher) forwarded to a 3.1.1 subscriber is encoded without "
                    "panic, properties dropped; Unschedule is never written",
         "encodes": ["impl From<Notification> for Option<Packet>", "rumqttd::protocol::v4::V4::write", "rumqttd::protocol::v4::publish::write"],
         "stubs": [TRACING_STUB, BYTES_MODEL],
         "outside": ["decoding the produced bytes with the client decoders and the MQTT 5 encoder side (harnesses exist, time out)",
                     "that the router delivers across listeners (Router loop)"]},
        {"name": "acks_and_disconnect_to_v5", "filters": ["c04::rt_v5::"], "tier": "quick", "timeout": 400, "jobs": 6, "min_harnesses": 12,
         "kind": "(shared with C04) router acks / disconnects towards an MQTT 5 link: round trip (client v5 encode -> client v5 decode) + D (broker v5 encoder vs client v5 encoder, byte for byte)",
         "bounds": "PUBACK/PUBREC/PUBREL/PUBCOMP: packet id symbolic over 1..=65535, reason code concrete per instance (success short "
                   "form and one failure code each), no properties; PINGREQ/PINGRESP; DISCONNECT: normal (short form, full round trip) "
                   "and two router reasons (encoders only)",
         "asserts": "write Ok; bytes written == size() == returned count; decode yields an equal packet and consumes exactly the frame; "
                    "broker encoder bytes == client encoder bytes; DISCONNECT declares the remaining length it writes",
         "encodes": ["rumqttc::v5::mqttbytes::v5::{Packet::read, Packet::write, Packet::size, PubAck, PubRec, PubRel, PubComp, PingReq, "
                     "PingResp, Disconnect}::{read, write, size}",
                     "rumqttd::protocol::v5::V5::write and puback/pubrec/pubrel/pubcomp/ping/disconnect::write"],
         "stubs": [BYTES_MODEL],
         "outside": ["MQTT 5 properties (every Option absent), string-bearing MQTT 5 packets, MQTT 5 broker decoders"]},
    ],
}

"""Registry: which harness families decide which property, at which tier, with which
bounds.  The text here is what ends up in the evidence files; keep it truthful."""

BYTES_MODEL = ("bytes crate replaced (solver run only) by the Vec-backed model /verif/shims/bytes "
               "(same API and panics; no sharing / capacity / pointer identity)")

PROPS = {}

# ---------------------------------------------------------------------------
PROPS["SELFTEST"] = {
    "title": "driver self-test: a deliberately false assertion must come out as VIOLATION (not in MANIFEST)",
    "families": [
        {"name": "selftest", "filters": ["probe::failing"], "tier": "quick", "timeout": 120,
         "kind": "self-test", "bounds": "n/a", "encodes": ["bytes::BytesMut (model)"]},
    ],
}

# ---------------------------------------------------------------------------
VARINT_FNS = [
    "rumqttc::mqttbytes::{length, write_remaining_length}", "rumqttc::mqttbytes::v4::len_len",
    "rumqttc::v5::mqttbytes::v5::{length, write_remaining_length, len_len}",
    "rumqttd::protocol::v4::{length, write_remaining_length, len_len}",
    "rumqttd::protocol::v5::{length, write_remaining_length, len_len}",
]
CHECK_FNS = [
    "rumqttc::mqttbytes::{check, parse_fixed_header, length, FixedHeader::frame_length}",
    "rumqttc::v5::mqttbytes::v5::{check, parse_fixed_header, length, FixedHeader::frame_length}",
    "rumqttd::protocol::v4::{check, parse_fixed_header, length, FixedHeader::frame_length}",
    "rumqttd::protocol::v5::{check, parse_fixed_header, length, FixedHeader::frame_length}",
]

PROPS["C04"] = {
    "title": "Codecs round-trip every packet and interoperate between client and broker",
    "families": [
        {"name": "varint", "filters": ["c04::varint::"], "tier": "quick", "timeout": 300, "min_harnesses": 4,
         "kind": "R (reference encoder) + round trip, one harness per codec copy",
         "bounds": "len: usize fully symbolic (all 2^64 values, no bound); both loops <= 4 iterations "
                   "(4 x 7 bits), unwind 6 with unwinding assertions; one arbitrary trailing byte",
         "asserts": "write_remaining_length errs iff len > 268435455 and then writes nothing; otherwise "
                    "bytes written == returned count == len_len(len) == reference width, bytes equal the "
                    "reference encoding, length() on them (with/without a trailing byte) returns (width, len)",
         "encodes": VARINT_FNS, "stubs": [BYTES_MODEL]},
    ],
}

PROPS["C05"] = {
    "title": "Decoders are total, bounded and chunking-independent on arbitrary bytes",
    "families": [
        {"name": "header", "filters": ["c05::header::"], "tier": "quick", "timeout": 300, "min_harnesses": 4,
         "kind": "R (reference header decoder), fully symbolic buffer, one harness per codec copy",
         "bounds": "buffer of N = 8 fully symbolic bytes, visible prefix n symbolic in 0..=8, max packet size "
                   "fully symbolic (usize; Option<u32> for the v5 client); unwind 7",
         "asserts": "check() total; Ok iff header complete and well formed, remaining_len <= max and n >= frame "
                    "length, returned header == reference; InsufficientBytes only while header/frame incomplete "
                    "and with the exact missing count; size-limit error iff declared length > max; malformed "
                    "iff 4th length byte has the continuation bit",
         "encodes": CHECK_FNS, "stubs": [],
         "outside": ["frames longer than the buffer bound are represented only by their header (declared length "
                     "up to 2^28-1 is covered, the body bytes are not present)"]},
    ],
}

# ---------------------------------------------------------------------------
TRACING_STUB = ("tracing events given empty bodies (tracing::callsite::DefaultCallsite::interest -> never, "
                "tracing::__macro_support::__is_enabled -> false, tracing::Event::dispatch -> no-op): the real "
                "dispatch path registers a thread-local destructor Kani cannot compile; claim = no subscriber installed")
PL_STUB = ("parking_lot::RawMutex::{lock_slow, unlock_slow} replaced by panicking stubs: harnesses are single "
           "threaded, an uncontended lock never takes the slow path (reaching it would fail the harness)")

C13_FNS = ["rumqttd::segments::CommitLog::{new, append, apply_retention, readv, next_offset, memory_segments_count}",
           "rumqttd::segments::segment::Segment::{new, with_offset, push, readv, next_offset, len, size}"]

PROPS["C13"] = {
    "title": "Commit log reads return exactly the retained suffix; retention is bounded",
    "families": [
        {"name": "append_step", "filters": ["c13::step::append_"], "tier": "quick", "timeout": 900, "jobs": 3, "mem_gb": 18,
         "min_harnesses": 9,
         "kind": "I (one inductive step over INV pre-states built with the real Segment::with_offset + push)",
         "bounds": "segment layout concrete per instance (1-3 segments, 0-2 entries each, max_mem_segments 1-3, "
                   "max_segment_size 1024); ALL entry sizes symbolic u16 under INV; appended size symbolic u16",
         "asserts": "append returns the log tail; rotates iff the active segment was full; evicts exactly the whole oldest "
                    "segment iff the segment limit is reached; never more than max_mem_segments; absolute offsets stay "
                    "contiguous; the new entry is readable right behind the previous tail and reports caught-up",
         "encodes": C13_FNS, "stubs": [TRACING_STUB, BYTES_MODEL],
         "assumes": ["INV (see harness/kani/src/c13/mod.rs) on the pre-state; it is re-established by the layout post-condition"],
         "outside": ["more than 3 retained segments / 2 entries per segment in a pre-state shape", "the DataLog wrapper (HashMap)"]},
        {"name": "read_step", "filters": ["c13::step::read_"], "tier": "quick", "timeout": 900, "jobs": 3, "mem_gb": 18,
         "min_harnesses": 11,
         "kind": "I (one read from an INV state) against a closed-form reference",
         "bounds": "layout concrete per instance; cursor segment concrete per instance (every live segment, and a stale one "
                   "below head); cursor offset SYMBOLIC over every value the log can have issued for that segment; "
                   "len symbolic 0..=4; entry sizes symbolic",
         "asserts": "returns exactly the retained entries at/after the cursor, in order, no gaps/repeats, at most len, each "
                    "tagged with its own (segment, absolute offset); stale cursor resumes at the oldest retained entry; "
                    "Done iff nothing retained remains; continuation resumes exactly and is itself a valid cursor",
         "encodes": C13_FNS, "stubs": [TRACING_STUB, BYTES_MODEL], "assumes": ["INV on the pre-state"],
         "outside": ["len > 4 (idx + len can overflow in Segment::readv for len near u64::MAX; the router passes <= 100)"]},
        {"name": "fabricated", "filters": ["c13::step::fab_"], "tier": "quick", "timeout": 900, "jobs": 3, "mem_gb": 18,
         "min_harnesses": 4,
         "kind": "no-panic for fabricated cursors",
         "bounds": "2-segment layout; cursor segment in {stale, each live one, beyond tail}; cursor offset ANY u64; len 0..=4",
         "asserts": "readv returns Ok, no panic/overflow/out-of-bounds (CBMC checks), never more than len entries",
         "encodes": C13_FNS, "stubs": [TRACING_STUB, BYTES_MODEL]},
        {"name": "history", "filters": ["c13::history::h_"], "tier": "quick", "timeout": 900, "jobs": 3, "mem_gb": 18,
         "min_harnesses": 4,
         "kind": "H (real histories from CommitLog::new with concrete size vectors) tying INV states to reachable ones",
         "bounds": "4 appends with concrete sizes from {0,1,5,7,512,1023,1024,2048}, max_mem_segments 1-3, then one read with "
                   "symbolic offset and len 0..=4",
         "asserts": "layout == documented retention policy; read post-condition as in read_step",
         "encodes": C13_FNS, "stubs": [TRACING_STUB, BYTES_MODEL]},
    ],
}

"""Registry: which harness families decide which property, at which tier, with which
bounds.  The text here is what ends up in the evidence files; keep it truthful."""

BYTES_MODEL = ("bytes crate replaced (solver run only) by the Vec-backed model /verif/shims/bytes "
               "(same API and panics; no sharing / capacity / pointer identity)")

PROPS = {}

# ---------------------------------------------------------------------------
PROPS["SELFTEST"] = {
    "title": "driver self-test: a deliberately false assertion must come out as VIOLATION (not in MANIFEST)",
    "families": [
        {"name": "selftest", "filters": ["probe::failing"], "tier": "quick", "timeout": 120,
         "kind": "self-test", "bounds": "n/a", "encodes": ["bytes::BytesMut (model)"]},
    ],
}

# ---------------------------------------------------------------------------
VARINT_FNS = [
    "rumqttc::mqttbytes::{length, write_remaining_length}", "rumqttc::mqttbytes::v4::len_len",
    "rumqttc::v5::mqttbytes::v5::{length, write_remaining_length, len_len}",
    "rumqttd::protocol::v4::{length, write_remaining_length, len_len}",
    "rumqttd::protocol::v5::{length, write_remaining_length, len_len}",
]
CHECK_FNS = [
    "rumqttc::mqttbytes::{check, parse_fixed_header, length, FixedHeader::frame_length}",
    "rumqttc::v5::mqttbytes::v5::{check, parse_fixed_header, length, FixedHeader::frame_length}",
    "rumqttd::protocol::v4::{check, parse_fixed_header, length, FixedHeader::frame_length}",
    "rumqttd::protocol::v5::{check, parse_fixed_header, length, FixedHeader::frame_length}",
]

PROPS["C04"] = {
    "title": "Codecs round-trip every packet and interoperate between client and broker",
    "families": [
        {"name": "varint", "filters": ["c04::varint::"], "tier": "quick", "timeout": 300, "min_harnesses": 4,
         "kind": "R (reference encoder) + round trip, one harness per codec copy",
         "bounds": "len: usize fully symbolic (all 2^64 values, no bound); both loops <= 4 iterations "
                   "(4 x 7 bits), unwind 6 with unwinding assertions; one arbitrary trailing byte",
         "asserts": "write_remaining_length errs iff len > 268435455 and then writes nothing; otherwise "
                    "bytes written == returned count == len_len(len) == reference width, bytes equal the "
                    "reference encoding, length() on them (with/without a trailing byte) returns (width, len)",
         "encodes": VARINT_FNS, "stubs": [BYTES_MODEL]},
    ],
}

PROPS["C05"] = {
    "title": "Decoders are total, bounded and chunking-independent on arbitrary bytes",
    "families": [
        {"name": "header", "filters": ["c05::header::"], "tier": "quick", "timeout": 300, "min_harnesses": 4,
         "kind": "R (reference header decoder), fully symbolic buffer, one harness per codec copy",
         "bounds": "buffer of N = 8 fully symbolic bytes, visible prefix n symbolic in 0..=8, max packet size "
                   "fully symbolic (usize; Option<u32> for the v5 client); unwind 7",
         "asserts": "check() total; Ok iff header complete and well formed, remaining_len <= max and n >= frame "
                    "length, returned header == reference; InsufficientBytes only while header/frame incomplete "
                    "and with the exact missing count; size-limit error iff declared length > max; malformed "
                    "iff 4th length byte has the continuation bit",
         "encodes": CHECK_FNS, "stubs": [],
         "outside": ["frames longer than the buffer bound are represented only by their header (declared length "
                     "up to 2^28-1 is covered, the body bytes are not present)"]},
    ],
}

#!/usr/bin/env python3
"""Driver for the solver-based checks (DESIGN.md section 2).

  check --setup
  check <Cxx> --tier quick|thorough
  check <Cxx> --replay <path>
  check --list

Stdlib only.  The deciding step is always CBMC's verdict on a Kani harness
compiled from /repo's current working tree; this script only schedules
`cargo kani`, parses its JSON export, extracts + natively replays
counterexamples and writes the evidence file.
"""
import argparse
import hashlib
import json
import os
import random
import re
import shutil
import subprocess
import sys
import time

VERIF = os.path.dirname(os.path.dirname(os.path.abspath(__file__)))
REPO = os.environ.get("VERIF_REPO", "/repo")
KANI_CRATE = os.path.join(VERIF, "harness", "kani")
REPLAY_CRATE = os.path.join(VERIF, "harness", "replay")
TARGET = os.path.join(VERIF, "target")
EVIDENCE = os.path.join(VERIF, "evidence")
REPLAYS = os.path.join(VERIF, "replays")
KNOWN = os.path.join(VERIF, "known_findings.json")

sys.path.insert(0, os.path.join(VERIF, "lib"))
import registry  # noqa: E402

NOISE = re.compile(
    r"register_tool|^\s*\||^\s*=|^\s*$|crate attribute|unstable feature|^warning|^\s*--> |^[0-9 ]*\|"
)


def env_base():
    e = dict(os.environ)
    e["CARGO_NET_OFFLINE"] = "true"
    e.setdefault("CARGO_TERM_COLOR", "never")
    e.pop("RUSTFLAGS", None)
    return e


def log(msg):
    print(msg, flush=True)


def sync_lock(crate):
    """Cargo.lock of the harness workspace follows /repo's (offline resolution)."""
    src = os.path.join(REPO, "Cargo.lock")
    dst = os.path.join(crate, "Cargo.lock")
    stamp = dst + ".src-sha"
    h = hashlib.sha256(open(src, "rb").read()).hexdigest()
    old = open(stamp).read().strip() if os.path.exists(stamp) else ""
    if h != old or not os.path.exists(dst):
        shutil.copyfile(src, dst)
        open(stamp, "w").write(h)


def target_dir(kind, prop):
    """One cargo target dir per property (concurrent checks never share one).
    Seeded from the base dir built by --setup when available."""
    base = os.path.join(TARGET, kind + "-base")
    d = os.path.join(TARGET, "%s-%s" % (kind, prop))
    if not os.path.isdir(d) and os.path.isdir(base):
        tmp = d + ".tmp%d" % os.getpid()
        shutil.rmtree(tmp, ignore_errors=True)
        subprocess.call(["cp", "-a", base, tmp])
        try:
            os.rename(tmp, d)
        except OSError:
            shutil.rmtree(tmp, ignore_errors=True)
    os.makedirs(d, exist_ok=True)
    return d


def run_logged(cmd, cwd, logpath, env, timeout, mem_gb=None):
    """Run cmd under ulimit -s unlimited (+ optional -v) and a wall-clock timeout."""
    pre = "ulimit -s unlimited 2>/dev/null; "
    if mem_gb:
        pre += "ulimit -v %d; " % (mem_gb * 1024 * 1024)
    sh = pre + "exec " + " ".join(shquote(c) for c in cmd)
    t0 = time.time()
    with open(logpath, "w") as lf:
        p = subprocess.Popen(
            ["bash", "-c", sh], cwd=cwd, env=env, stdout=lf, stderr=subprocess.STDOUT,
            start_new_session=True,
        )
        try:
            rc = p.wait(timeout=timeout)
        except subprocess.TimeoutExpired:
            try:
                os.killpg(p.pid, 9)
            except OSError:
                pass
            p.wait()
            rc = -9
    return rc, time.time() - t0


def shquote(s):
    if re.match(r"^[A-Za-z0-9_./:=,+@%-]+$", s):
        return s
    return "'" + s.replace("'", "'\\''") + "'"


# ---------------------------------------------------------------------------
# result cache: a verdict is a deterministic function of (sources of /repo's two crates,
# harness crate + bytes model sources, Kani flags, harness name).  Several properties share
# the client state-machine harnesses; the cache lets the second property reuse the verdict
# CBMC produced for the first one ON IDENTICAL INPUTS instead of re-solving it.  Any edit to
# /repo or /verif changes the key.  VERIF_NO_CACHE=1 disables it.

CACHE = os.path.join(TARGET, "cache")


def _hash_tree(h, root, exts):
    for dp, dn, fn in sorted(os.walk(root)):
        dn[:] = sorted(d for d in dn if d not in ("target", ".git"))
        for f in sorted(fn):
            if f.endswith(exts):
                fp = os.path.join(dp, f)
                h.update(fp.encode())
                try:
                    h.update(open(fp, "rb").read())
                except OSError:
                    pass


_INPUTS_KEY = None


def inputs_key():
    global _INPUTS_KEY
    if _INPUTS_KEY is None:
        h = hashlib.sha256()
        for sub in ("rumqttc", "rumqttd"):
            _hash_tree(h, os.path.join(REPO, sub), (".rs", ".toml"))
        h.update(open(os.path.join(REPO, "Cargo.lock"), "rb").read())
        gen_admission()
        _hash_tree(h, os.path.join(KANI_CRATE, "src"), (".rs",))
        h.update(open(os.path.join(KANI_CRATE, "Cargo.toml"), "rb").read())
        _hash_tree(h, os.path.join(VERIF, "shims", "bytes", "src"), (".rs",))
        _INPUTS_KEY = h.hexdigest()
    return _INPUTS_KEY


def cache_path(kind, name, flags):
    k = hashlib.sha256((inputs_key() + "|" + kind + "|" + name + "|" + flags).encode()).hexdigest()[:32]
    return os.path.join(CACHE, k + ".json")


def cache_get(kind, name, flags):
    if os.environ.get("VERIF_NO_CACHE"):
        return None
    try:
        return json.load(open(cache_path(kind, name, flags)))
    except Exception:
        return None


def cache_put(kind, name, flags, obj):
    os.makedirs(CACHE, exist_ok=True)
    tmp = cache_path(kind, name, flags) + ".tmp%d" % os.getpid()
    json.dump(obj, open(tmp, "w"))
    os.replace(tmp, cache_path(kind, name, flags))



# ---------------------------------------------------------------------------
# Source -> encoding for the one-line admission guard of the async event loop.
# `EventLoop::select` is an `async fn` over tokio `select!` and cannot be executed by the solver,
# but its flow-control guard is a loop-free boolean expression over four observable quantities.
# It is extracted from /repo's CURRENT source on every run and re-emitted as a plain Rust `fn`
# that the state-machine harnesses use as their admission rule; so a change to the guard changes
# the formula the solver decides (and a change the extractor cannot parse fails the check as
# "not covered" instead of being silently assumed away).

GEN_DIR = os.path.join(KANI_CRATE, "src", "generated")

_SUBST = [
    (r"self\.state\.inflight\b(?!_)", "inflight"),
    (r"self\.mqtt_options\.inflight\b", "max"),
    (r"self\.state\.max_outgoing_inflight\b", "max"),
    (r"self\.state\.collision\.is_some\(\)", "collision_pending"),
    (r"self\.state\.collision\.is_none\(\)", "(!collision_pending)"),
    (r"self\.pending\.is_empty\(\)", "pending_empty"),
]
_ALLOWED = re.compile(r"^(?:\s|inflight_full|inflight|max|collision_pending|collision|pending_empty|true|false|"
                      r"&&|\|\||>=|<=|==|!=|>|<|!|\(|\)|\+|-|\d+)*$")


def _translate(expr):
    e = expr
    for pat, rep in _SUBST:
        e = re.sub(pat, rep, e)
    if not _ALLOWED.match(e):
        return None
    return e.strip()


def extract_admission(path):
    """-> (inflight_full_expr, collision_expr, guard_expr) in harness vocabulary, or None"""
    try:
        src = open(path).read()
    except OSError:
        return None
    m1 = re.search(r"let\s+inflight_full\s*=\s*([^;]+);", src)
    m2 = re.search(r"let\s+collision\s*=\s*([^;]+);", src)
    m3 = re.search(r"Self::next_request\((?:[^()]|\([^()]*\))*\)\s*,\s*if\s+(.*?)\s*=>\s*match\s+o\s*\{", src, re.S)
    if not (m1 and m2 and m3):
        return None
    parts = [_translate(m.group(1)) for m in (m1, m2, m3)]
    if any(x is None for x in parts):
        return None
    return tuple(parts)


def gen_admission():
    """Writes src/generated/admission.rs; returns list of problems (empty = ok)."""
    os.makedirs(GEN_DIR, exist_ok=True)
    problems = []
    out = ["// GENERATED on every run by lib/driver.py from /repo/rumqttc/src/{,v5/}eventloop.rs - do not edit.",
           "// The flow-control guard of `EventLoop::select`, re-emitted over plain values.", ""]
    for name, rel in (("v4", "rumqttc/src/eventloop.rs"), ("v5", "rumqttc/src/v5/eventloop.rs")):
        ex = extract_admission(os.path.join(REPO, rel))
        if ex is None:
            problems.append("cannot extract the admission guard of EventLoop::select from %s (shape changed)" % rel)
            ex = ("inflight >= max", "collision_pending", "!pending_empty || (!inflight_full && !collision)")
            out.append("// EXTRACTION FAILED for %s: falling back to the recorded guard; the check reports itself as not covering it" % rel)
        out += [
            "/// would `select()` take the next request? (`pending_empty` = nothing carried over from a previous connection)",
            "#[allow(unused_parens, clippy::all)]",
            "pub fn %s_takes_request(inflight: u16, max: u16, collision_pending: bool, pending_empty: bool) -> bool {" % name,
            "    let inflight_full = %s;" % ex[0],
            "    let collision = %s;" % ex[1],
            "    %s" % ex[2],
            "}", ""]
    text = "\n".join(out)
    path = os.path.join(GEN_DIR, "admission.rs")
    old = open(path).read() if os.path.exists(path) else None
    if old != text:
        open(path, "w").write(text)
    modp = os.path.join(GEN_DIR, "mod.rs")
    if not os.path.exists(modp):
        open(modp, "w").write("// generated sources (see lib/driver.py)\npub mod admission;\n")
    return problems

# ---------------------------------------------------------------------------
# running Kani


def kani_stage(prop, stage_name, filters, jobs, harness_timeout, mem_gb, extra_args, tdir, outdir):
    """One `cargo kani` invocation over a set of harness filters.  Returns parsed JSON (or None)."""
    sync_lock(KANI_CRATE)
    js = os.path.join(outdir, "%s.json" % stage_name)
    lg = os.path.join(outdir, "%s.log" % stage_name)
    if os.path.exists(js):
        os.remove(js)
    cmd = ["cargo", "kani", "--target-dir", tdir, "-Z", "unstable-options", "-Z", "stubbing",
           "--output-format", "terse", "-j", str(jobs),
           "--harness-timeout", str(harness_timeout), "--export-json", js]
    for f in filters:
        cmd += ["--harness", f]
    cmd += extra_args
    # wall clock cap for the whole stage: generous, the per-harness timeout is the real cap
    n_guess = max(1, len(filters))
    wall = 900 + harness_timeout * 40
    rc, dt = run_logged(cmd, KANI_CRATE, lg, env_base(), wall, mem_gb)
    data = None
    if os.path.exists(js):
        try:
            data = json.load(open(js))
        except Exception:
            data = None
    return rc, dt, data, lg


def parse_stage(data, logpath):
    """-> dict harness -> result record"""
    out = {}
    if data is None:
        return out
    stats = {c["harness_id"]: (c.get("cbmc_stats") or {}) for c in data.get("cbmc", [])}
    props = {c["harness_id"]: (c.get("property_details") or {}) for c in data.get("property_details", [])}
    errs = {c["harness_id"]: c for c in data.get("error_details", [])}
    srcs = {h["pretty_name"]: h.get("source", {}) for h in data.get("harness_metadata", [])}
    for r in data.get("verification_results", {}).get("results", []):
        hid = r["harness_id"]
        failed, covers_sat, covers_unsat, undet = [], [], [], []
        for c in r.get("checks", []):
            st = c.get("status")
            desc = c.get("description", "")
            if st == "Failure":
                failed.append({"description": desc.strip('"'), "function": c.get("function"),
                               "location": c.get("location"), "category": c.get("category")})
            elif st == "Satisfied":
                covers_sat.append(desc.strip('"'))
            elif st in ("Unsatisfiable", "Unreachable") and c.get("category") == "cover":
                covers_unsat.append(desc.strip('"'))
            elif st == "Undetermined":
                undet.append(desc.strip('"'))
        out[hid] = {
            "harness": hid,
            "status": r.get("status"),
            "duration_s": r.get("duration_ms", 0) / 1000.0,
            "failed": failed,
            "covers_satisfied": covers_sat,
            "covers_unsatisfied": covers_unsat,
            "undetermined": undet,
            "props": props.get(hid) or {},
            "stats": stats.get(hid) or {},
            "error": errs.get(hid) or {},
            "source": srcs.get(hid) or {},
        }
    return out


def decided(r):
    return r["status"] == "Success" or (r["status"] == "Failure" and bool(r["failed"]))


def cached_stage(filters, flags):
    """-> (recs found in the cache, names of harnesses still to run) or None when the harness list
    of some filter is not known yet."""
    recs, missing = {}, []
    for f in filters:
        idx = cache_get("index", f, flags)
        if idx is None:
            return None
        for h in idx:
            r = cache_get("rec", h, flags)
            if r is None:
                missing.append(h)
            else:
                recs[h] = r
    return recs, sorted(set(missing))


def store_stage(filters, flags, recs, index=True):
    # only decided verdicts are kept; a timeout may pass next time on a quieter machine
    if index:
        for f in filters:
            cache_put("index", f, flags, sorted(h for h in recs if f in h))
    for h, r in recs.items():
        if decided(r):
            r2 = dict(r)
            r2["cached_at"] = time.strftime("%Y-%m-%dT%H:%M:%SZ", time.gmtime())
            cache_put("rec", h, flags, r2)


def harnesses_listed(data):
    return [h["pretty_name"] for h in (data or {}).get("harness_metadata", [])]


LABEL = re.compile(r"^(C\d\d):")


def relevant(f, prop):
    """Harnesses shared between properties label each assertion with the property it belongs to
    ("C07: ..."); a check of property P looks at P's labels and at unlabelled checks (panics,
    overflow, out-of-bounds - they break every property).  Other labels are P's sibling's business."""
    m = LABEL.match(f["description"])
    return (m is None) or (m.group(1) == prop)


def classify(rec, prop=None):
    """decided-pass / vacuous / undecided / failed"""
    if rec["status"] == "Success":
        if rec["covers_unsatisfied"]:
            return "vacuous"
        if rec["undetermined"]:
            return "undecided"
        return "pass"
    fails = rec["failed"]
    if not fails:
        return "undecided"  # timeout, OOM, CBMC error
    if any(is_unwind(f) for f in fails):
        return "undecided"  # an unwinding assertion failed: the bound is too small, nothing is decided
    real = [f for f in fails if relevant(f, prop)]
    if real:
        return "failed"
    if rec["covers_unsatisfied"]:
        return "vacuous"
    return "pass"  # only sibling-property assertions failed; reported by their own check


def is_unwind(f):
    d = f["description"]
    return "unwinding assertion" in d or "recursion unwinding" in d


# ---------------------------------------------------------------------------
# counterexample extraction and native replay


def extract_playback(prop, harness, tdir, outdir, timeout, mem_gb, extra_args):
    """Re-run one harness with concrete playback; return list of (test_name, test_source)."""
    sync_lock(KANI_CRATE)
    lg = os.path.join(outdir, "playback-%s.log" % harness.replace("::", "-"))
    cmd = ["cargo", "kani", "--target-dir", tdir, "-Z", "unstable-options", "-Z", "stubbing",
           "-Z", "concrete-playback", "--concrete-playback=print",
           "--harness", harness, "--exact", "--harness-timeout", str(timeout)] + extra_args
    run_logged(cmd, KANI_CRATE, lg, env_base(), timeout + 600, mem_gb)
    txt = open(lg, errors="replace").read()
    tests = []
    for m in re.finditer(r"```\n(.*?)```", txt, re.S):
        body = m.group(1)
        nm = re.search(r"fn (kani_concrete_playback_\w+)\(", body)
        if nm:
            tests.append((nm.group(1), body))
    return tests, lg


def write_solver_only_witness(prop, harness, descs, rec, plog):
    d = os.path.join(REPLAYS, prop)
    os.makedirs(d, exist_ok=True)
    path = os.path.join(d, harness.replace("::", "__") + ".solver-witness.txt")
    with open(path, "w") as f:
        f.write("property: %s\nharness: %s\n" % (prop, harness))
        f.write("verdict: CBMC found the following assertion(s) violated for some input within the harness bounds:\n")
        for dsc in descs:
            f.write("  - %s\n" % dsc)
        for fl in rec["failed"]:
            if fl["description"] in descs:
                f.write("    at %s (%s)\n" % (json.dumps(fl.get("location")), fl.get("function")))
        f.write("native replay: NOT available - Kani's concrete-playback run (unsliced formula) exceeded the memory/time cap, see %s\n" % plog)
        f.write("re-run: cd /verif/harness/kani && cargo kani -Z unstable-options -Z stubbing --harness %s --exact\n" % harness)
    return path


def write_replay_file(prop, harness, tests):
    d = os.path.join(REPLAYS, prop)
    os.makedirs(d, exist_ok=True)
    path = os.path.join(d, harness.replace("::", "__") + ".rs")
    fn = harness.split("::")[-1]
    body = ["// Concrete counterexample(s) for harness `%s` (property %s)," % (harness, prop),
            "// produced by CBMC via Kani concrete playback; replay with",
            "//   /verif/bin/check %s --replay %s" % (prop, path),
            "// verif-harness: %s" % harness,
            "mod replay_gen {"]
    seen = set()
    for name, src in tests:
        if name in seen:
            continue
        seen.add(name)
        src = re.sub(r"kani::concrete_playback_run\(concrete_vals, %s\)" % re.escape(fn),
                     "kani::concrete_playback_run(concrete_vals, crate::%s)" % harness, src)
        body.append(src)
    body.append("}")
    open(path, "w").write("\n".join(body) + "\n")
    return path


def native_replay(prop, path, release=False):
    """Run the playback tests natively against the real crates.  -> (reproduced, summary, log)"""
    gen_admission()
    sync_lock(REPLAY_CRATE)
    tdir = target_dir("replay", prop)
    env = env_base()
    env["VERIF_REPLAY_GEN"] = path
    env["CARGO_TARGET_DIR"] = tdir
    env["RUST_BACKTRACE"] = "0"
    lg = path + (".release.log" if release else ".dev.log")
    cmd = ["cargo", "kani", "playback", "-Z", "concrete-playback", "--features", "replay"]
    if release:
        cmd.append("--release")
    cmd += ["--", "kani_concrete_playback", "--test-threads", "1"]
    rc, dt = run_logged(cmd, REPLAY_CRATE, lg, env, 3600)
    txt = open(lg, errors="replace").read()
    failed = re.findall(r"^test (\S+) \.\.\. FAILED", txt, re.M)
    passed = re.findall(r"^test (\S+) \.\.\. ok", txt, re.M)
    panics = re.findall(r"panicked at ([^\n]*)\n([^\n]*)", txt)
    built = bool(failed or passed)
    return {"built": built, "failed": failed, "passed": passed,
            "panics": [(a.strip(), b.strip()) for a, b in panics][:8], "log": lg, "rc": rc}


# ---------------------------------------------------------------------------
# known findings


def load_known():
    if not os.path.exists(KNOWN):
        return []
    return json.load(open(KNOWN)).get("findings", [])


def match_known(prop, harness, failed_descs, panics):
    """A finding matches by role: property + harness regex + failing-check regex."""
    hits = []
    for k in load_known():
        if k.get("status") != "known" or k.get("property") != prop:
            continue
        if not re.search(k.get("harness", ".*"), harness):
            continue
        pat = k.get("check", ".*")
        if all(re.search(pat, d) for d in failed_descs) and failed_descs:
            hits.append(k)
    return hits


# ---------------------------------------------------------------------------
# syntactic guards (async glue the solver cannot execute; DESIGN section 3)


def run_guards(prop):
    res = []
    for g in registry.PROPS[prop].get("guards", []):
        p = os.path.join(REPO, g["file"])
        try:
            src = open(p).read()
        except OSError:
            res.append((g, False, "file missing"))
            continue
        norm = re.sub(r"\s+", " ", src)
        if g.get("ordered"):
            pos, ok = 0, True
            for s in g["must_contain"]:
                k = norm.find(re.sub(r"\s+", " ", s), pos)
                if k < 0:
                    ok = False
                    break
                pos = k + 1
        else:
            ok = all(re.sub(r"\s+", " ", s) in norm for s in g["must_contain"])
        res.append((g, ok, ""))
    return res


# ---------------------------------------------------------------------------


ONLY = []


def tier_families(prop, tier):
    fams = registry.PROPS[prop]["families"]
    if ONLY:
        out = []
        for f in fams:
            keep = [flt for flt in f["filters"] if any(o in flt or flt in o for o in ONLY)]
            if keep:
                g = dict(f)
                g["filters"] = [o if any(flt in o for flt in keep) and len(o) > max(len(x) for x in keep) else None for o in ONLY]
                g["filters"] = [x for x in g["filters"] if x] or keep
                g["min_harnesses"] = 1
                out.append(g)
        return out
    if tier == "quick":
        out = []
        for f in fams:
            if f.get("tier", "quick") != "quick":
                continue
            if f.get("filters_quick"):
                g = dict(f)
                g["filters"] = f["filters_quick"]
                g["min_harnesses"] = f.get("min_harnesses_quick", 1)
                g["bounds"] = f.get("bounds", "") + " [quick tier: instances " + ", ".join(f["filters_quick"]) + " only; thorough runs all]"
                out.append(g)
            else:
                out.append(f)
        return out
    # thorough = everything, except quick families explicitly superseded
    sup = set()
    for f in fams:
        for s in f.get("supersedes", []):
            sup.add(s)
    return [f for f in fams if f["name"] not in sup]


def check_property(prop, tier, seed):
    t0 = time.time()
    P = registry.PROPS[prop]
    outdir = os.path.join(TARGET, "out-%s-%s" % (prop, tier))
    shutil.rmtree(outdir, ignore_errors=True)
    os.makedirs(outdir, exist_ok=True)
    os.makedirs(EVIDENCE, exist_ok=True)
    tdir = target_dir("kani", prop)
    gen_problems = gen_admission()
    fams = tier_families(prop, tier)
    rng = random.Random(seed)

    # stages: families grouped by (timeout, jobs, mem, extra args)
    stages = {}
    for f in fams:
        to = f.get("timeout_" + tier, f.get("timeout", 300 if tier == "quick" else 1800))
        jobs = f.get("jobs", 12)
        mem = f.get("mem_gb", 12 if tier == "quick" else 24)
        extra = tuple(f.get("kani_args", []))
        stages.setdefault((to, jobs, mem, extra), []).append(f)

    results = {}
    fam_of = {}
    stage_logs = []
    broken = []
    reused = 0
    for i, (key, fl) in enumerate(sorted(stages.items(), key=lambda kv: kv[0][0])):
        to, jobs, mem, extra = key
        filters = []
        for f in fl:
            filters += f["filters"]
        rng.shuffle(filters)
        name = "stage%d" % i
        log("[%s] %s: cargo kani, %d filter(s) %s, -j %d, harness timeout %ds"
            % (prop, name, len(filters), filters if len(filters) <= 6 else filters[:6] + ["..."], jobs, to))
        flags = "to=%s|mem=%s|extra=%s" % (to, mem, ",".join(extra))
        cs = cached_stage(filters, flags)
        exact = False
        run_filters = filters
        recs = {}
        if cs is not None:
            recs, missing = cs
            reused += len(recs)
            if recs:
                log("[%s] %s: %d harness verdict(s) reused from the cache (identical /repo + /verif inputs), %d to run"
                    % (prop, name, len(recs), len(missing)))
            run_filters, exact = missing, True
        if run_filters:
            rc, dt, data, lg = kani_stage(prop, name, run_filters, jobs, to, mem, list(extra) + (["--exact"] if exact else []),
                                          tdir, outdir)
            stage_logs.append(lg)
            if data is None:
                tail = "".join(l for l in open(lg, errors="replace").readlines()[-60:] if not NOISE.search(l))
                log("[%s] %s produced no JSON export (rc=%s). Log tail:\n%s" % (prop, name, rc, tail))
                broken.append("stage %s: no result (build failure or crash), see %s" % (name, lg))
                continue
            fresh = parse_stage(data, lg)
            listed = harnesses_listed(data)
            for h in listed:
                if h not in fresh:
                    fresh[h] = {"harness": h, "status": "NoResult", "duration_s": 0, "failed": [],
                                "covers_satisfied": [], "covers_unsatisfied": [], "undetermined": [],
                                "props": {}, "stats": {}, "error": {}, "source": {}}
            store_stage(filters, flags, fresh, index=not exact)
            recs.update(fresh)
        for f in fl:
            got = [h for h in recs if any(flt in h for flt in f["filters"])]
            if len(got) < f.get("min_harnesses", 1):
                broken.append("family %s: expected >= %d harnesses, found %d"
                              % (f["name"], f.get("min_harnesses", 1), len(got)))
            for h in got:
                fam_of[h] = f
        results.update(recs)

    # classify
    verdicts = {h: classify(r, prop) for h, r in results.items()}
    violations, known_lines, inconclusive, solver_only = [], [], [], []
    for h, v in sorted(verdicts.items()):
        r = results[h]
        if v == "pass":
            continue
        if v == "vacuous":
            broken.append("harness %s is vacuous: cover(s) not satisfiable: %s" % (h, r["covers_unsatisfied"]))
            continue
        if v == "undecided":
            why = r["status"]
            if r["failed"]:
                why += " (unwinding assertion: %s)" % r["failed"][0]["description"]
            if r["error"].get("error_type"):
                why += " [%s]" % r["error"].get("error_type")
            broken.append("harness %s undecided: %s" % (h, why))
            continue
        # failed: extract a concrete counterexample and replay it natively
        descs = sorted(set(f["description"] for f in r["failed"] if not is_unwind(f) and relevant(f, prop)))
        log("[%s] harness %s FAILED in the solver: %s" % (prop, h, descs))
        fam = fam_of.get(h, {})
        to = fam.get("timeout_" + tier, fam.get("timeout", 300 if tier == "quick" else 1800))
        # the playback run keeps the whole trace (no formula slicing): give it most of the machine, one at a time
        if fam.get("playback", True):
            tests, plog = extract_playback(prop, h, tdir, outdir, max(to, 1800), 44,
                                           list(fam.get("kani_args", [])))
        else:
            # measured: the unsliced playback query of this family does not fit the machine
            tests, plog = [], "(playback not attempted for this family: unsliced query exceeds 44 GB)"
        if not tests:
            # Kani's concrete-playback run keeps the whole trace (no formula slicing) and can exceed
            # the machine on the heavier harnesses.  The solver's verdict on the sliced query stands;
            # it is reported with a witness record (harness, failing assertions, how to re-run)
            # instead of a native test, and the evidence says so.
            path = write_solver_only_witness(prop, h, descs, r, plog)
            r["replay"] = {"path": path, "native": False}
            rep = {"panics": [], "failed": [], "built": False}
            solver_only.append(h)
        else:
            path = write_replay_file(prop, h, tests)
            rep = native_replay(prop, path, release=False)
            rep_rel = native_replay(prop, path, release=True) if rep["built"] else None
            r["replay"] = {"path": path, "dev": rep, "release": rep_rel, "native": True}
            reproduced = bool(rep["failed"]) or bool(rep_rel and rep_rel["failed"])
            if not reproduced:
                inconclusive.append({"harness": h, "checks": descs, "replay": path,
                                     "why": "counterexample did not reproduce natively against the real crates"})
                continue
        hits = match_known(prop, h, descs, rep["panics"])
        if hits:
            for k in hits:
                known_lines.append("KNOWN-FINDING: property=%s %s [harness %s]" % (prop, k["what"], h))
            r["known"] = [k["id"] for k in hits]
        else:
            violations.append({"harness": h, "checks": descs, "replay": path,
                               "panics": rep["panics"]})

    if registry.PROPS[prop].get("uses_admission"):
        for gp in gen_problems:
            broken.append("not covered: " + gp)
    guards = run_guards(prop)
    for g, ok, why in guards:
        if not ok:
            broken.append("syntactic guard failed (%s): the async glue line the state-machine harnesses "
                          "assume has changed: %s" % (g["file"], g["what"]))

    wall = time.time() - t0
    write_evidence(prop, tier, seed, fams, results, verdicts, violations, known_lines,
                   inconclusive, broken, guards, wall, reused, solver_only)

    for l in sorted(set(known_lines)):
        log(l)
    for i in inconclusive:
        log("INCONCLUSIVE property=%s harness=%s checks=%s: %s" % (prop, i["harness"], i["checks"], i["why"]))
    for b in broken:
        log("BROKEN-CHECK property=%s %s" % (prop, b))
    npass = sum(1 for v in verdicts.values() if v == "pass")
    log("[%s] tier=%s harnesses=%d pass=%d failed=%d undecided/vacuous=%d wall=%.0fs"
        % (prop, tier, len(verdicts), npass, sum(1 for v in verdicts.values() if v == "failed"),
           sum(1 for v in verdicts.values() if v in ("undecided", "vacuous")), wall))
    if violations:
        for v in violations:
            log("VIOLATION property=%s replay=%s" % (prop, v["replay"]))
            log("  harness=%s failed checks=%s" % (v["harness"], v["checks"]))
        return 1
    if broken or inconclusive or not verdicts:
        return 2
    return 0


def write_evidence(prop, tier, seed, fams, results, verdicts, violations, known_lines,
                   inconclusive, broken, guards, wall, reused=0, solver_only=()):
    P = registry.PROPS[prop]
    obligations = sum((r["props"].get("total_properties") or 0) for r in results.values())
    discharged = sum((r["props"].get("passed") or 0) + (r["props"].get("satisfied") or 0)
                     for r in results.values())
    unreachable = sum((r["props"].get("unreachable") or 0) for r in results.values())
    cov_sat = sum(len(r["covers_satisfied"]) for r in results.values())
    cov_tot = cov_sat + sum(len(r["covers_unsatisfied"]) for r in results.values())
    nontrivial = sum(1 for h, v in verdicts.items()
                     if v == "pass" and results[h]["covers_satisfied"])
    symex = sum(r["stats"].get("runtime_symex_s", 0) or 0 for r in results.values())
    solver = sum((r["stats"].get("runtime_solver_s", 0) or 0) +
                 (r["stats"].get("runtime_decision_procedure_s", 0) or 0) for r in results.values())
    vccs = sum(r["stats"].get("vccs_generated", 0) or 0 for r in results.values())
    per_h = []
    for h in sorted(results):
        r = results[h]
        fam = None
        for f in fams:
            if any(flt in h for flt in f["filters"]):
                fam = f["name"]
        per_h.append({
            "harness": h, "family": fam, "verdict": verdicts[h],
            "cbmc_checks": r["props"].get("total_properties") or 0,
            "cbmc_checks_passed": r["props"].get("passed") or 0,
            "covers_satisfied": r["covers_satisfied"],
            "covers_unsatisfied": r["covers_unsatisfied"],
            "failed_checks": sorted(set(f["description"] for f in r["failed"] if relevant(f, prop))),
            "failed_checks_of_other_properties": sorted(set(f["description"] for f in r["failed"] if not relevant(f, prop))),
            "verdict_cached_at": r.get("cached_at"),
            "wall_s": round(r["duration_s"], 2),
            "symex_s": r["stats"].get("runtime_symex_s"),
            "solver_s": r["stats"].get("runtime_solver_s"),
            "vccs": r["stats"].get("vccs_generated"),
            "vccs_after_simplification": r["stats"].get("vccs_remaining"),
            "replay": (r.get("replay") or {}).get("path"),
            "replayed_natively": (r.get("replay") or {}).get("native"),
            "known_finding": r.get("known"),
        })
    samples = []
    for f in fams:
        hs = [p for p in per_h if p["family"] == f["name"]]
        samples.append({
            "family": f["name"], "kind": f.get("kind", ""), "bounds": f.get("bounds", ""),
            "asserts": f.get("asserts", ""), "harnesses": [p["harness"] for p in hs][:40],
            "example_harness_source": (results.get(hs[0]["harness"], {}).get("source") if hs else None),
        })
    for v in violations:
        samples.append({"violation": v})
    encoded, stubs, assumes, outside = [], [], [], []
    for f in fams:
        for x in f.get("encodes", []):
            if x not in encoded:
                encoded.append(x)
        for x in f.get("stubs", []):
            if x not in stubs:
                stubs.append(x)
        for x in f.get("assumes", []):
            if x not in assumes:
                assumes.append(x)
        for x in f.get("outside", []):
            if x not in outside:
                outside.append(x)
    ev = {
        "property_id": prop,
        "tier": tier,
        "seed": seed,
        "level": "model_checking",
        "coverage": {
            "evaluations": len(results),
            "distinct_nontrivial": nontrivial,
            "rule": "one evaluation = one Kani proof harness (one CBMC query over ALL values of its symbolic "
                    "inputs within the stated bounds, unwinding assertions on); a harness counts as distinct "
                    "and non-trivial iff CBMC decided it SUCCESSFUL *and* every kani::cover! witness in it "
                    "was SATISFIED (the interesting regions are reachable, the proof is not vacuous). "
                    "Harness names are unique; instances differ in codec copy, concrete byte-0/length tuple, "
                    "max_inflight, operation kind.",
            "samples": samples,
            "obligations": obligations,
            "discharged": discharged,
            "unreachable_checks": unreachable,
            "covers_satisfied": cov_sat,
            "covers_total": cov_tot,
            "exhaustive": False,
            "functions_encoded": encoded,
            "stubs_and_models": stubs,
            "solver": "CBMC 6.11.0 / CaDiCaL via Kani 0.68.0 (goto-program compiled from /repo working tree)",
            "queries_discharged": sum(1 for v in verdicts.values() if v == "pass"),
            "queries_total": len(results),
            "verdicts_reused_from_cache": reused,
            "cache_note": "a verdict is reused only when /repo's rumqttc+rumqttd sources, Cargo.lock, the harness "
                          "crate, the bytes model and the Kani flags hash to the same key as the run that produced it",
            "symex_time_s": round(symex, 2),
            "solver_time_s": round(solver, 2),
            "vccs_generated": vccs,
            "outside_the_claim": outside,
            "harnesses": per_h,
            "inconclusive": inconclusive,
            "counterexamples_reported_on_solver_verdict_only": list(solver_only),
            "broken": broken,
            "known_findings_reported": sorted(set(known_lines)),
            "syntactic_guards": [{"file": g["file"], "what": g["what"], "ok": ok} for g, ok, _ in guards],
            "trusted_base": [
                "Kani 0.68 MIR->goto translation and CBMC 6.11 + CaDiCaL",
                "Vec-backed model of the `bytes` crate (/verif/shims/bytes), validated natively by "
                "`check --setup` against upstream bytes tests and a differential test; every reported "
                "counterexample is replayed against the REAL bytes crate",
            ] + stubs,
            "repo_head": git_head(),
            "repo_dirty_files": git_dirty(),
        },
        "assumptions": assumes + ["bounds per family as listed in coverage.samples[*].bounds; nothing is claimed outside them"],
        "wall_s": round(wall, 2),
        "violations": len(violations),
    }
    tmp = os.path.join(EVIDENCE, "%s.json.tmp" % prop)
    json.dump(ev, open(tmp, "w"), indent=1)
    os.replace(tmp, os.path.join(EVIDENCE, "%s%s.json" % (prop, ".partial" if ONLY else "")))


def git_head():
    try:
        return subprocess.check_output(["git", "-C", REPO, "rev-parse", "HEAD"], text=True).strip()
    except Exception:
        return None


def git_dirty():
    try:
        out = subprocess.check_output(["git", "-C", REPO, "status", "--porcelain", "-uno"], text=True)
        return [l[3:] for l in out.splitlines()][:50]
    except Exception:
        return None


# ---------------------------------------------------------------------------


def do_setup():
    t0 = time.time()
    os.makedirs(TARGET, exist_ok=True)
    rc = 0
    # 1. validate the bytes model natively (DESIGN 2.2)
    val = os.path.join(VERIF, "shims", "bytes-validate", "run.sh")
    if os.path.exists(val):
        log("[setup] validating the bytes model natively ...")
        r = subprocess.call(["bash", val], env=env_base())
        if r != 0:
            log("[setup] bytes model validation FAILED")
            rc = 1
    # 2. base build of the Kani harness crate (compiles /repo under Kani)
    gen_admission()
    sync_lock(KANI_CRATE)
    base = os.path.join(TARGET, "kani-base")
    lg = os.path.join(TARGET, "setup-kani.log")
    log("[setup] cargo kani --only-codegen (base target dir) ...")
    r, dt = run_logged(["cargo", "kani", "--target-dir", base, "-Z", "unstable-options", "-Z", "stubbing",
                        "--only-codegen"], KANI_CRATE, lg, env_base(), 3600)
    log("[setup] kani base build rc=%s in %.0fs" % (r, dt))
    if r != 0:
        sys.stdout.write("".join(l for l in open(lg, errors="replace").readlines()[-80:] if not NOISE.search(l)))
        rc = 1
    # 3. base build of the replay workspace (real bytes)
    sync_lock(REPLAY_CRATE)
    rbase = os.path.join(TARGET, "replay-base")
    env = env_base()
    env["CARGO_TARGET_DIR"] = rbase
    empty = os.path.join(TARGET, "empty_replay.rs")
    open(empty, "w").write("mod replay_gen {}\n")
    env["VERIF_REPLAY_GEN"] = empty
    lg = os.path.join(TARGET, "setup-replay.log")
    log("[setup] replay workspace build ...")
    r, dt = run_logged(["cargo", "kani", "playback", "-Z", "concrete-playback", "--features", "replay",
                        "--only-codegen"], REPLAY_CRATE, lg, env, 3600)
    log("[setup] replay base build rc=%s in %.0fs" % (r, dt))
    if r != 0:
        sys.stdout.write("".join(l for l in open(lg, errors="replace").readlines()[-80:] if not NOISE.search(l)))
        rc = 1
    log("[setup] done in %.0fs rc=%d" % (time.time() - t0, rc))
    return rc


def do_replay(prop, path):
    if not os.path.exists(path):
        log("replay file not found: %s" % path)
        return 2
    if path.endswith(".solver-witness.txt"):
        txt = open(path).read()
        m = re.search(r"^harness: (\S+)", txt, re.M)
        if not m:
            return 2
        h = m.group(1)
        log("solver-only witness: re-running harness %s" % h)
        gen_admission()
        tdir = target_dir("kani", prop)
        outdir = os.path.join(TARGET, "out-%s-replay" % prop)
        os.makedirs(outdir, exist_ok=True)
        rc, dt, data, lg = kani_stage(prop, "replay", [h], 1, 1800, 24, ["--exact"], tdir, outdir)
        recs = parse_stage(data, lg)
        r = recs.get(h)
        if r and classify(r, prop) == "failed":
            log("VIOLATION property=%s replay=%s" % (prop, path))
            return 1
        return 0 if r and classify(r, prop) == "pass" else 2
    rep = native_replay(prop, path, release=False)
    log("replay (dev profile, real crates): failed tests=%s passed=%s" % (rep["failed"], rep["passed"]))
    for a, b in rep["panics"]:
        log("  panicked at %s: %s" % (a, b))
    if rep["failed"]:
        log("VIOLATION property=%s replay=%s" % (prop, path))
        return 1
    if not rep["built"]:
        log("replay could not be built/run, see %s" % rep["log"])
        return 2
    return 0


def main():
    ap = argparse.ArgumentParser()
    ap.add_argument("prop", nargs="?")
    ap.add_argument("--tier", default=os.environ.get("VERIF_TIER", "quick"), choices=["quick", "thorough"])
    ap.add_argument("--setup", action="store_true")
    ap.add_argument("--replay")
    ap.add_argument("--list", action="store_true")
    ap.add_argument("--gen", action="store_true", help="only (re)generate src/generated from /repo")
    ap.add_argument("--only", action="append", default=[],
                    help="development / seeded-change runs: restrict to harness filters containing this substring "
                         "(evidence is then written to evidence/<prop>.partial.json, never to the registered file)")
    a = ap.parse_args()
    if a.gen:
        for pr in gen_admission():
            log("WARNING " + pr)
        sys.exit(0)
    if a.setup:
        sys.exit(do_setup())
    if a.list:
        for p in sorted(registry.PROPS):
            for f in registry.PROPS[p]["families"]:
                print(p, f.get("tier", "quick"), f["name"], f["filters"])
        sys.exit(0)
    if not a.prop or a.prop not in registry.PROPS:
        log("unknown property %r; known: %s" % (a.prop, sorted(registry.PROPS)))
        sys.exit(2)
    if a.replay:
        sys.exit(do_replay(a.prop, a.replay))
    try:
        seed = int(os.environ.get("VERIF_SEED", "0"))
    except ValueError:
        seed = 0
    global ONLY
    ONLY = a.only
    sys.exit(check_property(a.prop, a.tier, seed))


if __name__ == "__main__":
    main()

"""Source of MANIFEST.json."""
import subprocess

BASELINE_OFF = ("cd /repo && cargo nextest run --workspace --no-fail-fast --tool-config-file pb:/w/lib/nextest.toml "
                "--profile pb --test-threads 8 --offline || cargo test --workspace --no-fail-fast --offline")

TRUST = ("Trusted base: Kani 0.68 MIR->goto translation, CBMC 6.11 + CaDiCaL; the Vec-backed model of the `bytes` "
         "crate (validated natively in setup, and every counterexample is replayed against the real crate before it "
         "is reported); stubs listed in the evidence file. Bounded: holds for ALL inputs within the per-family "
         "bounds recorded in the evidence, unwinding assertions on; nothing is claimed beyond them.")

CLAIMS = {
 "C02": dict(
    text="Bounded model checking of the real MQTT 3.1.1 client state machine: 19 inductive step harnesses (user publish / "
         "subscribe / ping, broker PUBACK / PUBREC / PUBCOMP / PUBLISH / PUBREL / PINGRESP with arbitrary ids) from an "
         "ARBITRARY state satisfying a representation invariant that every step re-establishes, inflight limit 1-3. Decides: no "
         "step drops a held publish, release or parked collision; a collision released by PUBACK or PUBCOMP is recorded as "
         "unacknowledged; solicited acks free exactly their slot. NOT decided: clean() with held publishes (crash points, replay "
         "content) - CBMC > 48 GB - and the async EventLoop. Thorough tier adds four MQTT 5 client steps (PUBACK success/failure, "
         "PUBREC failure, PUBCOMP; 8-15 min and ~40 GB each) - the rest of the MQTT 5 state machine is outside.",
    design="DESIGN.md sections 0, 3, 5",
    technique="Kani/CBMC bounded model checking: inductive one-step harnesses over arbitrary invariant states of rumqttc::MqttState"),
 "C04": dict(
    text="Bounded model checking of the real codec code: (1) the remaining-length varint of all four codec copies for EVERY usize "
         "(round trip, len_len, reference encoder, rejection above 268435455); (2) MQTT 3.1.1 fixed-size packets: client "
         "encode->decode round trip with size / exact-consumption clauses and broker encoder == client encoder byte for byte; (3) the "
         "same for MQTT 5 PUBACK/PUBREC/PUBREL/PUBCOMP (success and failure reason), PING*, DISCONNECT without properties. "
         "NOT decided: PUBLISH and the other string-bearing packets, broker decoders, string-bearing packet round trips, MQTT 5 packet "
         "bodies (harnesses written, do not finish).",
    design="DESIGN.md sections 0, 3",
    technique="Kani/CBMC bounded model checking of the compiled codec functions against a reference encoder and client/broker encoder differential"),
 "C05": dict(
    text="Bounded model checking of check()/parse_fixed_header()/length() in all four decoders on a fully symbolic 8-byte buffer "
         "with symbolic visible length and symbolic max size, against a loop-free reference header decoder: totality (no "
         "panic/overflow), never accepts an over-limit frame, asks for more bytes only while the header or declared frame is "
         "incomplete and by the exact missing count, never frames beyond the declared length (hence framing is chunking "
         "independent); plus the MQTT 3.1.1 client decoder on complete frames of the ten fixed-size packet types with fully symbolic "
         "bodies (never panics, consumes exactly the frame, never asks for more). NOT decided: string-bearing and MQTT 5 packet "
         "bodies, both broker decoders' bodies (do not finish under CBMC).",
    design="DESIGN.md section 3 (C05)",
    technique="Kani/CBMC bounded model checking of the decoders' framing layer on symbolic byte buffers against a reference framing decoder"),
 "C07": dict(
    text="Same inductive step harnesses as C02 (labels C07): packet ids of publish/subscribe/unsubscribe in 1..=max, cyclic "
         "allocation, an unacknowledged slot is never overwritten, inflight == held publishes + pending releases <= max under "
         "the event loop's admission guard (extracted from eventloop.rs on every run and compiled into the harness), a collision "
         "is parked not sent, pending only while its id is held, resolved and cleared by the freeing PUBACK/PUBCOMP, an ack "
         "reopens the window. Thorough tier: four MQTT 5 steps (failure reason codes free the slot/window and resolve a parked "
         "collision). NOT decided: MQTT 5 receive-maximum, the remaining MQTT 5 steps, the async loop itself.",
    design="DESIGN.md sections 2.5, 3",
    technique="Kani/CBMC bounded model checking: inductive step harnesses + admission guard regenerated from source"),
 "C09": dict(
    text="Bounded model checking of the broker's outbound window leaf code: Tracker::try_ready full wake-up table; Outgoing "
         "push_forwards / register_ack / register_pubrec / register_pubcomp as one-step harnesses from a cyclic-id-run pre-state "
         "at a symbolic position of the 1..=100 cycle. NOT decided: everything in Router (that it honours free_slots(), resumes "
         "without further stimulus, closes only the offending connection).",
    design="DESIGN.md section 3 (C09)",
    technique="Kani/CBMC bounded model checking: total table + inductive step on rumqttd::router::iobufs::Outgoing"),
 "C10": dict(
    text="Same inductive step harnesses as C02 (labels C10): every received packet is surfaced first and exactly once; QoS1 -> "
         "PUBACK(id), QoS2 -> PUBREC(id), PUBREL of a known id -> PUBCOMP(id), none of them with manual_acks; unsolicited "
         "PUBACK/PUBREC/PUBCOMP/PUBREL (any id incl. 0, max+1, 65535) -> Err(Unsolicited) with bit-identical bookkeeping, no "
         "panic; exactly one Outgoing announcement per returned packet and none without. Thorough tier: four MQTT 5 steps. NOT "
         "decided: Network::readb batching (async), the remaining MQTT 5 steps.",
    design="DESIGN.md section 3",
    technique="Kani/CBMC bounded model checking: inductive step harnesses over arbitrary invariant states"),
 "C11": dict(
    text="PARTIAL: the step harnesses decide only the bookkeeping clean() rotates on (last acknowledged id recorded on every "
         "solicited PUBACK, within the table). The retransmission order produced by clean() itself, 'pending first', and 'nothing "
         "replayed without a session' are NOT decided (clean() with held publishes exceeds 48 GB under CBMC; the rest is async "
         "EventLoop code pinned by text guards that turn a change into exit 2).",
    design="DESIGN.md sections 0, 2.5, 3",
    technique="Kani/CBMC bounded model checking of handle_incoming_puback bookkeeping; syntactic guards for the async glue"),
 "C12": dict(
    text="Bounded model checking of valid_filter / valid_topic / has_wildcards of client v4, client v5 and broker against "
         "byte-level reference validators on ALL strings of 0..=5 bytes over {a, A, /, +, #, $, e-acute}; matches() of the three "
         "copies on all topic/filter pairs of 1x1 and 2x1 bytes (quick) / up to 2x2 plus 3-copy agreement (thorough) against a "
         "reference matcher: totality, MQTT rules on valid pairs, $-topics. Found and fixed the multi-byte first-character panic. "
         "NOT decided: longer pairs (one 2x2 instance takes 5-10 min).",
    design="DESIGN.md section 3 (C12)",
    technique="Kani/CBMC bounded model checking of the string validators against reference validators"),
 "C13": dict(
    text="Bounded model checking of CommitLog::readv / Segment::readv from invariant states built with the real Segment API "
         "(layout case-split: 1-3 segments, 0-2 entries; cursor offset symbolic over everything the log can issue incl. stale; "
         "len 0..=4; sizes symbolic) against a closed-form reference: exact retained suffix, order, own offsets, continuation, "
         "caught-up flag, stale resume; fabricated cursors (any u64) never panic; the append step from 13 invariant pre-states "
         "(1-3 segments, limit 1-3, active-segment size at every boundary of 'full'): rotates iff full, evicts exactly the "
         "oldest whole segment iff at the limit, never exceeds the limit, offsets contiguous; a real history from "
         "CommitLog::new(1024, 1). NOT decided: more than 3 segments / 2 entries per segment, DataLog.",
    design="DESIGN.md section 3 (C13)",
    technique="Kani/CBMC bounded model checking: shape-instantiated one-step harnesses with a closed-form reference"),
 "C18": dict(
    text="PARTIAL (ping flag protocol only): a ping while the previous one is unanswered -> AwaitPingResp (failure detected at "
         "the second interval), PINGRESP clears the flag and the next ping is Ok (no false alarm), two pings during an "
         "unresolved collision -> CollisionTimeout, the flag does not survive clean(). NOT decided: that the timer fires once "
         "per keep-alive, keep-alive 0, connection timeout (tokio timers in async select).",
    design="DESIGN.md section 3",
    technique="Kani/CBMC bounded model checking of MqttState::outgoing_ping / handle_incoming_pingresp / clean"),
 "C20": dict(
    text="Bounded model checking of From<Notification> + V4::write on a forwarded PUBLISH carrying any subset of MQTT 5 "
         "properties (encoded without panic, byte-identical to the property-less frame) and of Unschedule never reaching the wire; "
         "router acks (PUBACK/PUBREC/PUBREL/PUBCOMP/PINGRESP) and DISCONNECTs towards an MQTT 5 link: broker encoder == client "
         "encoder and client round trip (shared with C04). NOT decided: forwarded PUBLISH towards MQTT 5 links (properties), "
         "CONNACK/SUBACK with properties, cross-listener routing (Router).",
    design="DESIGN.md section 3 (C20)",
    technique="Kani/CBMC bounded model checking of the 3.1.1 encoder on router notifications"),
}

NA_COMMON = ("deciding mechanism is the Router event loop (HashMap<String,_>/Slab/flume/tracing/SystemTime, async tasks): "
             "two std HashMap inserts do not finish under CBMC in 10 min, one router event touches dozens; not encodable "
             "with the solver tooling in this sandbox (DESIGN.md sections 0 and 4)")

NOT_APPLICABLE = {
 "C01": "exact in-order delivery quantifies over Router::events/consume/forward_device_data and all schedules; " + NA_COMMON + ". Leaf logic (matching, log reads) is decided under C12/C13.",
 "C03": "routing core never panics quantifies over Router::events; " + NA_COMMON + ". The leaf panics it names are decided under C12 (matches), C20 (V4::write), C05 (decoder arms).",
 "C06": "acks are produced in Router::handle_device_payload/ack_device_data; " + NA_COMMON,
 "C08": "session resume lives in Router::handle_disconnection/handle_new_connection/Graveyard (HashMap); " + NA_COMMON,
 "C14": "isolation depends on slab-id reuse inside Router::events and the async per-connection tasks; " + NA_COMMON,
 "C15": "retained messages live in DataLog.retained_publishes (HashMap) and forward_device_data; " + NA_COMMON,
 "C16": "last will lives in Router.last_wills (HashMap) and the async will-delay task in broker::remote; " + NA_COMMON,
 "C17": "shared-subscription exactly-once depends on consume/forward_device_data interleavings; " + NA_COMMON,
 "C19": "admission is async socket code (mqtt_connect with time::timeout) plus Router::handle_new_connection; " + NA_COMMON,
}
# properties whose checks are planned in DESIGN.md but not built yet in this revision
PENDING = {
}


def manifest():
    checks = []
    for pid in sorted(CLAIMS):
        c = CLAIMS[pid]
        checks.append({
            "property_id": pid,
            "quick_cmd": "./bin/check %s --tier quick" % pid,
            "thorough_cmd": "./bin/check %s --tier thorough" % pid,
            "evidence_file": "/verif/evidence/%s.json" % pid,
            "replay_cmd_template": "./bin/check %s --replay {path}" % pid,
            "engine": "kani-cbmc",
            "level_claimed": {"category": "model_checking", "text": c["text"], "design_ref": c["design"]},
            "level_note": TRUST + (" " + c["note"] if c.get("note") else ""),
            "technique": c["technique"],
        })
    na = [{"property_id": k, "reason": v} for k, v in sorted({**NOT_APPLICABLE, **PENDING}.items()) if k not in CLAIMS]
    return {
        "version": 1,
        "setup_cmd": "./bin/check --setup",
        "hooks": {
            "guard": "cfg(kani)",
            "enable": "set automatically by the Kani compiler (cargo kani) for every crate in the build; never set by cargo build/test",
            "baseline_off_cmd": BASELINE_OFF,
            "source_commits": hook_commits(),
            "add_only": True,
        },
        "engines": [{
            "name": "kani-cbmc", "path": "/verif/harness/kani",
            "serves_properties": sorted(CLAIMS),
            "kind_free_text": "Kani 0.68 proof harnesses (symbolic inputs via kani::any) over the real rumqttc/rumqttd "
                              "crates as path dependencies, decided by CBMC 6.11 + CaDiCaL; counterexamples replayed "
                              "natively (harness/replay, real bytes crate) before being reported",
        }],
        "checks": checks,
        "not_applicable": na,
        "notes": "See DESIGN.md. Exit codes: 0 held within bounds (KNOWN-FINDING lines possible); 1 + VIOLATION line for a "
                 "replay-confirmed unlisted violation; 2 = check undecided/broken (timeout, OOM, vacuous cover, "
                 "non-reproducing counterexample) - never reported as success.",
    }


def hook_commits():
    try:
        out = subprocess.check_output(["git", "-C", "/repo", "log", "--format=%H %s"], text=True)
        return [l.split()[0] for l in out.splitlines() if l.split(" ", 1)[1].startswith("verif hooks:")]
    except Exception:
        return []

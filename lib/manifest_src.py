"""Source of MANIFEST.json."""
import subprocess

BASELINE_OFF = ("cd /repo && cargo nextest run --workspace --no-fail-fast --tool-config-file pb:/w/lib/nextest.toml "
                "--profile pb --test-threads 8 --offline || cargo test --workspace --no-fail-fast --offline")

TRUST = ("Trusted base: Kani 0.68 MIR->goto translation, CBMC 6.11 + CaDiCaL; the Vec-backed model of the `bytes` "
         "crate (validated natively in setup, and every counterexample is replayed against the real crate before it "
         "is reported); stubs listed in the evidence file. Bounded: holds for ALL inputs within the per-family "
         "bounds recorded in the evidence, unwinding assertions on; nothing is claimed beyond them.")

CLAIMS = {
 "C04": dict(
    text="Bounded model checking of the real codec code: CBMC decides, for every value within the bounds, that "
         "(1) the remaining-length varint of all four codec copies encodes/decodes every usize correctly (unbounded in "
         "value: all 2^64 lengths, every width boundary), agrees with len_len and rejects > 268435455. "
         "Right level: round-trip is a universally quantified statement over packet values; the solver covers the whole "
         "value space of each bounded instance at once, which sampling cannot.",
    design="DESIGN.md section 3 (C04)",
    technique="Kani/CBMC bounded model checking of the compiled codec functions (SAT, CaDiCaL) against a reference encoder"),
 "C05": dict(
    text="Bounded model checking of check()/parse_fixed_header()/length() in all four decoders on a fully symbolic "
         "8-byte buffer with symbolic visible length and symbolic max size, against a loop-free reference header "
         "decoder: totality (no panic/overflow), never accepts an over-limit frame, asks for more bytes only while the "
         "header or declared frame is incomplete and by the exact missing count, never frames beyond the declared length.",
    design="DESIGN.md section 3 (C05)",
    technique="Kani/CBMC bounded model checking of the decoders on symbolic byte buffers against a reference framing decoder"),
}

NA_COMMON = ("deciding mechanism is the Router event loop (HashMap<String,_>/Slab/flume/tracing/SystemTime, async tasks): "
             "two std HashMap inserts do not finish under CBMC in 10 min, one router event touches dozens; not encodable "
             "with the solver tooling in this sandbox (DESIGN.md sections 0 and 4)")

NOT_APPLICABLE = {
 "C01": "exact in-order delivery quantifies over Router::events/consume/forward_device_data and all schedules; " + NA_COMMON + ". Leaf logic (matching, log reads) is decided under C12/C13.",
 "C03": "routing core never panics quantifies over Router::events; " + NA_COMMON + ". The leaf panics it names are decided under C12 (matches), C20 (V4::write), C05 (decoder arms).",
 "C06": "acks are produced in Router::handle_device_payload/ack_device_data; " + NA_COMMON,
 "C08": "session resume lives in Router::handle_disconnection/handle_new_connection/Graveyard (HashMap); " + NA_COMMON,
 "C14": "isolation depends on slab-id reuse inside Router::events and the async per-connection tasks; " + NA_COMMON,
 "C15": "retained messages live in DataLog.retained_publishes (HashMap) and forward_device_data; " + NA_COMMON,
 "C16": "last will lives in Router.last_wills (HashMap) and the async will-delay task in broker::remote; " + NA_COMMON,
 "C17": "shared-subscription exactly-once depends on consume/forward_device_data interleavings; " + NA_COMMON,
 "C19": "admission is async socket code (mqtt_connect with time::timeout) plus Router::handle_new_connection; " + NA_COMMON,
}
# properties whose checks are planned in DESIGN.md but not built yet in this revision
PENDING = {'C02': 'planned in DESIGN.md section 3, check not built yet in this revision of /verif (work in progress)',
 'C07': 'planned in DESIGN.md section 3, check not built yet in this revision of /verif (work in progress)',
 'C09': 'planned in DESIGN.md section 3, check not built yet in this revision of /verif (work in progress)',
 'C10': 'planned in DESIGN.md section 3, check not built yet in this revision of /verif (work in progress)',
 'C11': 'planned in DESIGN.md section 3, check not built yet in this revision of /verif (work in progress)',
 'C12': 'planned in DESIGN.md section 3, check not built yet in this revision of /verif (work in progress)',
 'C13': 'planned in DESIGN.md section 3, check not built yet in this revision of /verif (work in progress)',
 'C18': 'planned in DESIGN.md section 3, check not built yet in this revision of /verif (work in progress)',
 'C20': 'planned in DESIGN.md section 3, check not built yet in this revision of /verif (work in progress)'}


def manifest():
    checks = []
    for pid in sorted(CLAIMS):
        c = CLAIMS[pid]
        checks.append({
            "property_id": pid,
            "quick_cmd": "./bin/check %s --tier quick" % pid,
            "thorough_cmd": "./bin/check %s --tier thorough" % pid,
            "evidence_file": "/verif/evidence/%s.json" % pid,
            "replay_cmd_template": "./bin/check %s --replay {path}" % pid,
            "engine": "kani-cbmc",
            "level_claimed": {"category": "model_checking", "text": c["text"], "design_ref": c["design"]},
            "level_note": TRUST + (" " + c["note"] if c.get("note") else ""),
            "technique": c["technique"],
        })
    na = [{"property_id": k, "reason": v} for k, v in sorted({**NOT_APPLICABLE, **PENDING}.items()) if k not in CLAIMS]
    return {
        "version": 1,
        "setup_cmd": "./bin/check --setup",
        "hooks": {
            "guard": "cfg(kani)",
            "enable": "set automatically by the Kani compiler (cargo kani) for every crate in the build; never set by cargo build/test",
            "baseline_off_cmd": BASELINE_OFF,
            "source_commits": hook_commits(),
            "add_only": True,
        },
        "engines": [{
            "name": "kani-cbmc", "path": "/verif/harness/kani",
            "serves_properties": sorted(CLAIMS),
            "kind_free_text": "Kani 0.68 proof harnesses (symbolic inputs via kani::any) over the real rumqttc/rumqttd "
                              "crates as path dependencies, decided by CBMC 6.11 + CaDiCaL; counterexamples replayed "
                              "natively (harness/replay, real bytes crate) before being reported",
        }],
        "checks": checks,
        "not_applicable": na,
        "notes": "See DESIGN.md. Exit codes: 0 held within bounds (KNOWN-FINDING lines possible); 1 + VIOLATION line for a "
                 "replay-confirmed unlisted violation; 2 = check undecided/broken (timeout, OOM, vacuous cover, "
                 "non-reproducing counterexample) - never reported as success.",
    }


def hook_commits():
    try:
        out = subprocess.check_output(["git", "-C", "/repo", "log", "--format=%H %s"], text=True)
        return [l.split()[0] for l in out.splitlines() if l.split(" ", 1)[1].startswith("verif hooks:")]
    except Exception:
        return []

#!/usr/bin/env python3
"""Regenerates MANIFEST.json from lib/manifest_src.py (claims) -- keeps the file valid and in sync."""
import json, os, sys
here = os.path.dirname(os.path.abspath(__file__))
sys.path.insert(0, here)
import manifest_src as M
json.dump(M.manifest(), open(os.path.join(os.path.dirname(here), "MANIFEST.json"), "w"), indent=1)
print("MANIFEST.json written:", [c["property_id"] for c in M.manifest()["checks"]])

// Native witness for finding F-C07-1 (rumqttc MQTT 5 client, handle_incoming_puback): a PUBACK
// with a failure reason code frees the slot but returns before check_collision, so a publish
// parked on that id stays parked although the id is free - nothing can resolve it any more; the
// event loop stops taking user requests and ends in CollisionTimeout.
// Place as rumqttc/tests/c07_v5_failed_puback_strands_collision.rs ; FAILS before the fix.
use rumqttc::v5::mqttbytes::v5::{Packet, PubAck, PubAckReason, Publish};
use rumqttc::v5::mqttbytes::QoS;
use rumqttc::v5::{MqttState, Request};

#[test]
fn failed_puback_still_resolves_the_collision_on_its_id() {
    let mut st = MqttState::new(2, false);
    st.handle_outgoing_packet(Request::Publish(Publish::new("a", QoS::AtLeastOnce, vec![1], None))).unwrap();
    st.handle_outgoing_packet(Request::Publish(Publish::new("b", QoS::AtLeastOnce, vec![2], None))).unwrap();
    st.handle_incoming_packet(Packet::PubAck(PubAck::new(2, None))).unwrap();
    // c wraps onto id 1 (still held by a) and is parked
    assert!(st.handle_outgoing_packet(Request::Publish(Publish::new("c", QoS::AtLeastOnce, vec![3], None))).unwrap().is_none());
    // the broker rejects a: id 1 is free now
    let mut nack = PubAck::new(1, None);
    nack.reason = PubAckReason::QuotaExceeded;
    let released = st.handle_incoming_packet(Packet::PubAck(nack)).unwrap();
    assert!(
        matches!(released, Some(Packet::Publish(ref p)) if &p.topic[..] == b"c" && p.pkid == 1),
        "parked publish not released although its id was freed: {released:?}, collision = {:?}",
        st.collision
    );
    assert!(st.collision.is_none());
}

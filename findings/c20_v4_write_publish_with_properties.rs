// Native witness for finding F-C20-1 (rumqttd): the MQTT 3.1.1 encoder panics (`unreachable!()`)
// on a PUBLISH that carries MQTT 5 properties - exactly what the router forwards to a 3.1.1
// subscriber when the publisher spoke MQTT 5 (forward_device_data passes the stored properties
// through unchanged).  Place as rumqttd/tests/c20_v4_write_publish_with_properties.rs and run
//   cargo test --offline -p rumqttd --test c20_v4_write_publish_with_properties
use bytes::BytesMut;
use rumqttd::protocol::v4::V4;
use rumqttd::protocol::{Packet, Protocol, Publish, PublishProperties};
use rumqttd::{Forward, Notification};

#[test]
fn publish_with_v5_properties_is_encodable_for_a_v4_link() {
    let publish = Publish::new("a/b", "payload", false);
    let properties = PublishProperties { topic_alias: Some(1), ..Default::default() };
    let forward = Forward { cursor: None, size: 0, publish, properties: Some(properties) };
    let packet: Option<Packet> = Notification::Forward(forward).into();
    let mut buf = BytesMut::new();
    let n = V4.write(packet.unwrap(), &mut buf).expect("3.1.1 encoder must accept a forwarded publish");
    assert_eq!(n, buf.len());
    // properties are dropped: a plain 3.1.1 PUBLISH frame
    assert_eq!(&buf[..], &[0x30, 12, 0, 3, b'a', b'/', b'b', b'p', b'a', b'y', b'l', b'o', b'a', b'd'][..]);
}

// Native witness for finding F-C02-1 (rumqttc v4): a publish parked on a packet-id collision and
// released by PUBCOMP is put on the wire but NOT recorded as unacknowledged, so a connection
// failure before its PUBACK loses it (clean() does not return it) and its PUBACK is rejected as
// unsolicited.  Place as rumqttc/tests/c02_pubcomp_collision_v4.rs and run
//   cargo test --offline -p rumqttc --test c02_pubcomp_collision_v4
// Fails on the tree before the "fix:" commit, passes after it.
use rumqttc::{MqttState, Packet, PubAck, PubComp, PubRec, Publish, QoS, Request};

#[test]
fn publish_released_by_pubcomp_is_still_held() {
    let mut st = MqttState::new(2, false);
    // a: QoS2, id 1     b: QoS1, id 2
    st.handle_outgoing_packet(Request::Publish(Publish::new("a", QoS::ExactlyOnce, vec![1]))).unwrap();
    st.handle_outgoing_packet(Request::Publish(Publish::new("b", QoS::AtLeastOnce, vec![2]))).unwrap();
    // broker acks b first -> window has room again
    st.handle_incoming_packet(Packet::PubAck(PubAck::new(2))).unwrap();
    // c wraps onto id 1, which a still holds -> parked
    let r = st.handle_outgoing_packet(Request::Publish(Publish::new("c", QoS::AtLeastOnce, vec![3]))).unwrap();
    assert!(r.is_none() && st.collision.is_some());
    // a's QoS2 flow completes; PUBCOMP frees id 1 and releases c
    st.handle_incoming_packet(Packet::PubRec(PubRec::new(1))).unwrap();
    let released = st.handle_incoming_packet(Packet::PubComp(PubComp::new(1))).unwrap();
    match released {
        Some(Packet::Publish(p)) => assert_eq!((p.topic.as_str(), p.pkid), ("c", 1)),
        other => panic!("parked publish not released: {other:?}"),
    }
    // c is on the wire and unacknowledged: it must count as in flight and survive a failure
    assert_eq!(st.inflight(), 1, "released publish is not counted as in flight");
    let pending = st.clean();
    assert!(
        pending.iter().any(|r| matches!(r, Request::Publish(p) if p.topic == "c" && p.pkid == 1)),
        "publish released by PUBCOMP is lost on connection failure: {pending:?}"
    );
}

// Native witness for finding F-C07-2 (rumqttc MQTT 5 client, handle_incoming_pubrec): a PUBREC
// with a failure reason code ends the QoS2 exchange (the publish is dropped from the table) but
// `inflight` is not decremented: every rejected QoS2 publish leaks one window slot until the next
// reconnect; with inflight limit 1 the event loop never takes another request.
// Place as rumqttc/tests/c07_v5_failed_pubrec_leaks_window.rs ; FAILS before the fix.
use rumqttc::v5::mqttbytes::v5::{Packet, PubRec, PubRecReason, Publish};
use rumqttc::v5::mqttbytes::QoS;
use rumqttc::v5::{MqttState, Request};

#[test]
fn rejected_qos2_publish_frees_its_window_slot() {
    let mut st = MqttState::new(1, false);
    st.handle_outgoing_packet(Request::Publish(Publish::new("a", QoS::ExactlyOnce, vec![1], None))).unwrap();
    assert_eq!(st.inflight(), 1);
    let mut nack = PubRec::new(1, None);
    nack.reason = PubRecReason::QuotaExceeded;
    st.handle_incoming_packet(Packet::PubRec(nack)).unwrap();
    assert!(st.clean().is_empty(), "nothing is held any more");
    // fresh state again to look at the counter itself
    let mut st = MqttState::new(1, false);
    st.handle_outgoing_packet(Request::Publish(Publish::new("a", QoS::ExactlyOnce, vec![1], None))).unwrap();
    let mut nack = PubRec::new(1, None);
    nack.reason = PubRecReason::QuotaExceeded;
    st.handle_incoming_packet(Packet::PubRec(nack)).unwrap();
    assert_eq!(st.inflight(), 0, "window slot of the rejected publish was not freed");
}

// Native witness for finding F-C02-3 (rumqttc MQTT 5 client, handle_incoming_pubcomp):
//  (a) a publish parked on a packet-id collision and released by PUBCOMP is sent but not recorded
//      (same defect as F-C02-1 in the 3.1.1 client);
//  (b) the parked publish is taken BEFORE the PUBCOMP is validated: an unsolicited PUBCOMP for the
//      colliding id returns Err(Unsolicited) and the parked publish is gone.
// Place as rumqttc/tests/c02_pubcomp_collision_v5.rs ; both tests FAIL before the fix.
use rumqttc::v5::mqttbytes::v5::{Packet, PubAck, PubComp, PubRec, Publish};
use rumqttc::v5::mqttbytes::QoS;
use rumqttc::v5::{MqttState, Request};

fn parked_on_id_1() -> MqttState {
    let mut st = MqttState::new(2, false);
    st.handle_outgoing_packet(Request::Publish(Publish::new("a", QoS::ExactlyOnce, vec![1], None))).unwrap();
    st.handle_outgoing_packet(Request::Publish(Publish::new("b", QoS::AtLeastOnce, vec![2], None))).unwrap();
    st.handle_incoming_packet(Packet::PubAck(PubAck::new(2, None))).unwrap();
    let r = st.handle_outgoing_packet(Request::Publish(Publish::new("c", QoS::AtLeastOnce, vec![3], None))).unwrap();
    assert!(r.is_none() && st.collision.is_some());
    st
}

#[test]
fn publish_released_by_pubcomp_is_still_held() {
    let mut st = parked_on_id_1();
    st.handle_incoming_packet(Packet::PubRec(PubRec::new(1, None))).unwrap();
    let released = st.handle_incoming_packet(Packet::PubComp(PubComp::new(1, None))).unwrap();
    assert!(matches!(released, Some(Packet::Publish(ref p)) if &p.topic[..] == b"c" && p.pkid == 1));
    assert_eq!(st.inflight(), 1, "released publish is not counted as in flight");
    let pending = st.clean();
    assert!(
        pending.iter().any(|r| matches!(r, Request::Publish(p) if &p.topic[..] == b"c" && p.pkid == 1)),
        "publish released by PUBCOMP is lost on connection failure: {pending:?}"
    );
}

#[test]
fn unsolicited_pubcomp_does_not_eat_the_parked_publish() {
    let mut st = parked_on_id_1();
    // id 1 is still an unacknowledged QoS2 publish (no PUBREC yet): this PUBCOMP is unsolicited
    assert!(st.handle_incoming_packet(Packet::PubComp(PubComp::new(1, None))).is_err());
    assert!(st.collision.is_some(), "the parked publish vanished with the unsolicited PUBCOMP");
}

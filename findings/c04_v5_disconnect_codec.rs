// Native witnesses for findings F-C04-1 / F-C04-2 (MQTT 5 DISCONNECT codec, rumqttc and rumqttd).
// Place as rumqttc/tests/c04_v5_disconnect_codec.rs ; both tests FAIL on the current tree.
use bytes::BytesMut;
use rumqttc::v5::mqttbytes::v5::{Disconnect, DisconnectReasonCode, Packet};

// F-C04-1: a DISCONNECT with a non-normal reason and no properties: write() returns (and size()
// reports) one byte less than it writes; the frame's remaining length is 1 but 2 bytes follow
// (reason + property length) -> the peer sees a stray byte after the frame.
#[test]
fn disconnect_with_reason_reports_the_bytes_it_writes() {
    let p = Packet::Disconnect(Disconnect::new(DisconnectReasonCode::ServerShuttingDown));
    let mut buf = BytesMut::new();
    let n = p.write(&mut buf, None).unwrap();
    assert_eq!(n, buf.len(), "write() return value vs bytes written: {:?}", &buf[..]);
    assert_eq!(p.size(), buf.len());
    let back = Packet::read(&mut buf, None).unwrap();
    assert_eq!(back, p);
    assert!(buf.is_empty(), "stray bytes after the frame: {:?}", &buf[..]);
}

// F-C04-2: the short form (reason 0x00, no properties, remaining length 0) that both encoders
// emit for a normal disconnection is rejected by the client's own decoder.
#[test]
fn normal_disconnect_round_trips() {
    let p = Packet::Disconnect(Disconnect::new(DisconnectReasonCode::NormalDisconnection));
    let mut buf = BytesMut::new();
    p.write(&mut buf, None).unwrap();
    assert_eq!(&buf[..], &[0xE0, 0x00]);
    let back = Packet::read(&mut buf, None).expect("client cannot decode its own normal DISCONNECT");
    assert_eq!(back, p);
}

// Native witness for finding F-C12-1: matches() slices the first BYTE of the topic
// (`topic[..1]`) to test for '$'; a topic whose first character is multi-byte makes that a
// non-char-boundary slice -> panic.  In the broker this runs on the router thread for every publish.
// Place as rumqttc/tests/c12_matches_multibyte_first_char.rs (client copies) - the broker copy
// `rumqttd::protocol::matches` is the same code.
#[test]
fn matches_does_not_panic_on_a_multibyte_first_character() {
    assert!(rumqttc::matches("é/a", "#"));
    assert!(rumqttc::matches("é", "+"));
    assert!(!rumqttc::matches("é", "e"));
    assert!(rumqttc::v5::mqttbytes::matches("é/a", "+/a"));
    assert!(!rumqttc::matches("$é", "#"));
}

// Native witness for finding F-C02-2 (rumqttc v4, open): requests carried over in
// `EventLoop::pending` are taken UNCONDITIONALLY by `select()`
//     if !self.pending.is_empty() || (!inflight_full && !collision)
// so after a reconnect the user publishes that were still queued in the channel at failure time
// (EventLoop::clean appends them to `pending`) reach the state machine while the window is full
// and while a collision is already parked.  The second colliding publish overwrites
// `state.collision`; the first one is gone: never sent, not in outgoing_pub, not returned by clean().
//
// This test drives MqttState exactly the way the event loop does for pending requests
// (handle_outgoing_packet for every pending request, no gate).
// Place as rumqttc/tests/c02_pending_replay_overwrites_collision.rs; it FAILS on the current tree.
use rumqttc::{MqttState, Publish, QoS, Request};

#[test]
fn queued_publishes_survive_a_session_present_reconnect() {
    let mut st = MqttState::new(2, false);
    // a, b fill the window (ids 1, 2) and stay unacknowledged
    st.handle_outgoing_packet(Request::Publish(Publish::new("a", QoS::AtLeastOnce, vec![1]))).unwrap();
    st.handle_outgoing_packet(Request::Publish(Publish::new("b", QoS::AtLeastOnce, vec![2]))).unwrap();
    // connection fails; c and d were still in the request channel
    let mut pending = st.clean();
    pending.push(Request::Publish(Publish::new("c", QoS::AtLeastOnce, vec![3])));
    pending.push(Request::Publish(Publish::new("d", QoS::AtLeastOnce, vec![4])));
    // session present: select() drains `pending` without looking at the window or the collision flag
    for request in pending {
        st.handle_outgoing_packet(request).unwrap();
    }
    // every accepted publish must still be held somewhere: table, or the parked collision
    let mut held: Vec<String> = st.clean().into_iter().filter_map(|r| match r {
        Request::Publish(p) => Some(p.topic),
        _ => None,
    }).collect();
    if let Some(c) = &st.collision {
        held.push(c.topic.clone());
    }
    held.sort();
    assert_eq!(held, ["a", "b", "c", "d"], "a queued publish was dropped during the replay");
}
